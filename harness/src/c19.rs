//! C19: a2ml_specification! typed IF_DATA access round-trips.
//! A fixed set of macro invocations (compiled with the in-tree a2lmacros) that together use every A2ML construct;
//! each comes with a hand-written structural description `T` of the same definition (the reference for the
//! generated text constant and the source of conforming instances).
use crate::a2mlgen::*;
use crate::common::*;

pub struct SpecCase {
    pub name: &'static str,
    pub text: &'static str,
    pub root: T,
    /// load the typed value from an IF_DATA block, store it into (a) the same block and (b) a fresh block;
    /// returns None when load_from_ifdata yields no value, else (debug text of the value, value from fresh block equal?,
    /// the two blocks after storing)
    pub roundtrip: fn(&a2lfile::IfData) -> Option<(String, bool, a2lfile::IfData, a2lfile::IfData)>,
}

macro_rules! spec_case {
    ($m:ident, $ty:ident, $text:ident, $root:expr) => {
        SpecCase {
            name: stringify!($ty),
            text: $m::$text,
            root: $root,
            roundtrip: |ifdata| {
                let v = $m::$ty::load_from_ifdata(ifdata)?;
                let mut same = ifdata.clone();
                v.store_to_ifdata(&mut same);
                let mut fresh = a2lfile::IfData::new();
                v.store_to_ifdata(&mut fresh);
                let back = $m::$ty::load_from_ifdata(&fresh);
                let eq = back.as_ref() == Some(&v);
                Some((format!("{v:?}"), eq, same, fresh))
            },
        }
    };
}

fn sc(s: &'static str) -> T {
    T::Scalar(s)
}
fn tg(tag: &str, item: Option<T>, is_block: bool, repeat: bool, seq: bool) -> Tagged {
    Tagged { tag: tag.to_string(), item, seq, is_block, repeat }
}

mod s1 {
    a2lfile::a2ml_specification! {
        <Scalars>
        block "IF_DATA" taggedunion if_data {
            "CHAR" char a;
            "INT" int b;
            "LONG" long c;
            "INT64" int64 d;
            "UCHAR" uchar e;
            "UINT" uint f;
            "ULONG" ulong g;
            "UINT64" uint64 h;
            "DOUBLE" double i;
            "FLOAT" float j;
            "STR" char s[16];
            "NONE";
        };
    }
}

mod s2 {
    a2lfile::a2ml_specification! {
        <Shapes>
        enum Color { "RED" = 1, "GREEN" = 2, "BLUE" = 0x10 };
        struct Point { int x; int y; };
        block "IF_DATA" taggedunion {
            "POINT" struct Point;
            "ARR" uint arr[3];
            "FARR" float farr[2];
            "DARR" double darr[2];
            "COL" enum Color col;
            "ANON" enum { "A", "B", "C" } anon;
            "NEST" struct Outer { char name[8]; struct Point; long l[2]; enum Color; };
            "SEQ" (uint vals)*;
            "SEQS" (struct Pair { uchar a; char b; })*;
            "DEEP" struct Lvl1 { struct Lvl2 { struct Lvl3 { int; int; }; uint; }; uchar; };
        };
    }
}

mod s3 {
    a2lfile::a2ml_specification! {
        <Tagged>
        taggedstruct Inner {
            "X" uint;
            ("Y" int)*;
            block "B" long;
            (block "RB" struct { uint; char[4]; })*;
            "FLAG";
        };
        block "IF_DATA" taggedstruct {
            "A" taggedstruct Inner;
            block "BLK" taggedunion {
                "U1" uint;
                "U2" double;
                block "U3" struct { int; taggedstruct Inner; };
            };
            ("REP" struct { uint id; taggedstruct { "OPT" uchar; }; })*;
        };
    }
}

mod s4 {
    a2lfile::a2ml_specification! {
        <RootStruct>
        block "IF_DATA" struct {
            uint version;
            char name[10];
            taggedstruct {
                "T1" uint;
                ("T2" char[5])*;
                block "SEQUENCE" (char[12] item)*;
            };
        };
    }
}

mod s5 {
    a2lfile::a2ml_specification! {
        <Deep>
        taggedunion Leaf { "L1" int64; "L2" uint64; };
        block "IF_DATA" taggedunion {
            block "LEVEL1" taggedstruct {
                block "LEVEL2" taggedstruct {
                    (block "LEVEL3" struct { uchar; taggedunion Leaf; })*;
                    "MARK";
                };
                "VAL" struct { float; double; };
            };
            "OTHER" taggedunion Leaf;
        };
    }
}

mod s6 {
    // the same tag / the same default names in two places with different content: the generated types must stay apart
    a2lfile::a2ml_specification! {
        <Clash>
        block "IF_DATA" taggedunion {
            "CAN" taggedstruct {
                "MODE" uint;
                "RATE" struct { uint; };
                "KIND" enum { "A", "B" };
                ("NODE" struct { uchar; })*;
            };
            "LIN" taggedstruct {
                "MODE" char[20];
                "RATE" struct { char[4]; uint; };
                "KIND" enum { "X", "Y", "Z" };
                ("NODE" struct { char[6]; long; })*;
            };
        };
    }
}

mod s7 {
    // one identifier for a struct, a tagged struct and an enum: A2ML keeps a name space per kind of type
    a2lfile::a2ml_specification! {
        <SameName>
        struct Timing { uint; uchar; };
        taggedstruct Timing { "T" uint; ("R" int)*; };
        enum Timing { "FAST" = 1, "SLOW" = 2 };
        block "IF_DATA" taggedunion {
            "S" struct Timing;
            "TS" taggedstruct Timing;
            "E" enum Timing;
        };
    }
}

pub fn specs() -> Vec<SpecCase> {
    let point = || T::Struct(vec![sc("int"), sc("int")]);
    let color = || T::Enum(vec![("RED".into(), Some(1)), ("GREEN".into(), Some(2)), ("BLUE".into(), Some(16))]);
    let inner = || {
        T::TaggedStruct(vec![
            tg("X", Some(sc("uint")), false, false, false),
            tg("Y", Some(sc("int")), false, true, false),
            tg("B", Some(sc("long")), true, false, false),
            tg("RB", Some(T::Struct(vec![sc("uint"), T::CharArr(4)])), true, true, false),
            tg("FLAG", None, false, false, false),
        ])
    };
    let leaf = || T::TaggedUnion(vec![tg("L1", Some(sc("int64")), false, false, false), tg("L2", Some(sc("uint64")), false, false, false)]);
    vec![
        spec_case!(
            s1,
            Scalars,
            SCALARS_TEXT,
            T::TaggedUnion(vec![
                tg("CHAR", Some(sc("char")), false, false, false),
                tg("INT", Some(sc("int")), false, false, false),
                tg("LONG", Some(sc("long")), false, false, false),
                tg("INT64", Some(sc("int64")), false, false, false),
                tg("UCHAR", Some(sc("uchar")), false, false, false),
                tg("UINT", Some(sc("uint")), false, false, false),
                tg("ULONG", Some(sc("ulong")), false, false, false),
                tg("UINT64", Some(sc("uint64")), false, false, false),
                tg("DOUBLE", Some(sc("double")), false, false, false),
                tg("FLOAT", Some(sc("float")), false, false, false),
                tg("STR", Some(T::CharArr(16)), false, false, false),
                tg("NONE", None, false, false, false),
            ])
        ),
        spec_case!(
            s2,
            Shapes,
            SHAPES_TEXT,
            T::TaggedUnion(vec![
                tg("POINT", Some(point()), false, false, false),
                tg("ARR", Some(T::Arr(Box::new(sc("uint")), 3)), false, false, false),
                tg("FARR", Some(T::Arr(Box::new(sc("float")), 2)), false, false, false),
                tg("DARR", Some(T::Arr(Box::new(sc("double")), 2)), false, false, false),
                tg("COL", Some(color()), false, false, false),
                tg("ANON", Some(T::Enum(vec![("A".into(), None), ("B".into(), None), ("C".into(), None)])), false, false, false),
                tg("NEST", Some(T::Struct(vec![T::CharArr(8), point(), T::Arr(Box::new(sc("long")), 2), color()])), false, false, false),
                tg("SEQ", Some(sc("uint")), false, false, true),
                tg("SEQS", Some(T::Struct(vec![sc("uchar"), sc("char")])), false, false, true),
                tg("DEEP", Some(T::Struct(vec![T::Struct(vec![T::Struct(vec![sc("int"), sc("int")]), sc("uint")]), sc("uchar")])), false, false, false),
            ])
        ),
        spec_case!(
            s3,
            Tagged,
            TAGGED_TEXT,
            T::TaggedStruct(vec![
                tg("A", Some(inner()), false, false, false),
                tg(
                    "BLK",
                    Some(T::TaggedUnion(vec![
                        tg("U1", Some(sc("uint")), false, false, false),
                        tg("U2", Some(sc("double")), false, false, false),
                        tg("U3", Some(T::Struct(vec![sc("int"), inner()])), true, false, false),
                    ])),
                    true,
                    false,
                    false
                ),
                tg("REP", Some(T::Struct(vec![sc("uint"), T::TaggedStruct(vec![tg("OPT", Some(sc("uchar")), false, false, false)])])), false, true, false),
            ])
        ),
        spec_case!(
            s4,
            RootStruct,
            ROOTSTRUCT_TEXT,
            T::Struct(vec![
                sc("uint"),
                T::CharArr(10),
                T::TaggedStruct(vec![
                    tg("T1", Some(sc("uint")), false, false, false),
                    tg("T2", Some(T::CharArr(5)), false, true, false),
                    tg("SEQUENCE", Some(T::CharArr(12)), true, false, true),
                ]),
            ])
        ),
        spec_case!(
            s6,
            Clash,
            CLASH_TEXT,
            T::TaggedUnion(vec![
                tg(
                    "CAN",
                    Some(T::TaggedStruct(vec![
                        tg("MODE", Some(sc("uint")), false, false, false),
                        tg("RATE", Some(T::Struct(vec![sc("uint")])), false, false, false),
                        tg("KIND", Some(T::Enum(vec![("A".into(), None), ("B".into(), None)])), false, false, false),
                        tg("NODE", Some(T::Struct(vec![sc("uchar")])), false, true, false),
                    ])),
                    false,
                    false,
                    false
                ),
                tg(
                    "LIN",
                    Some(T::TaggedStruct(vec![
                        tg("MODE", Some(T::CharArr(20)), false, false, false),
                        tg("RATE", Some(T::Struct(vec![T::CharArr(4), sc("uint")])), false, false, false),
                        tg("KIND", Some(T::Enum(vec![("X".into(), None), ("Y".into(), None), ("Z".into(), None)])), false, false, false),
                        tg("NODE", Some(T::Struct(vec![T::CharArr(6), sc("long")])), false, true, false),
                    ])),
                    false,
                    false,
                    false
                ),
            ])
        ),
        spec_case!(
            s7,
            SameName,
            SAMENAME_TEXT,
            T::TaggedUnion(vec![
                tg("S", Some(T::Struct(vec![sc("uint"), sc("uchar")])), false, false, false),
                tg("TS", Some(T::TaggedStruct(vec![tg("T", Some(sc("uint")), false, false, false), tg("R", Some(sc("int")), false, true, false)])), false, false, false),
                tg("E", Some(T::Enum(vec![("FAST".into(), Some(1)), ("SLOW".into(), Some(2))])), false, false, false),
            ])
        ),
        spec_case!(
            s5,
            Deep,
            DEEP_TEXT,
            T::TaggedUnion(vec![
                tg(
                    "LEVEL1",
                    Some(T::TaggedStruct(vec![
                        tg(
                            "LEVEL2",
                            Some(T::TaggedStruct(vec![
                                tg("LEVEL3", Some(T::Struct(vec![sc("uchar"), leaf()])), true, true, false),
                                tg("MARK", None, false, false, false),
                            ])),
                            true,
                            false,
                            false
                        ),
                        tg("VAL", Some(T::Struct(vec![sc("float"), sc("double")])), false, false, false),
                    ])),
                    true,
                    false,
                    false
                ),
                tg("OTHER", Some(leaf()), false, false, false),
            ])
        ),
    ]
}

/// the structure of `t` in the format of the hook `a2ml_dump` (verif_hooks.rs `dump_spec`)
pub fn dump_t(t: &T, out: &mut String) {
    match t {
        T::Scalar(s) => out.push_str(s),
        T::CharArr(n) => out.push_str(&format!("arr[{n} char]")),
        T::Arr(of, n) => {
            out.push_str(&format!("arr[{n} "));
            dump_t(of, out);
            out.push(']');
        }
        T::Enum(items) => {
            let mut v: Vec<&(String, Option<i32>)> = items.iter().collect();
            v.sort();
            out.push_str("enum{");
            for (n, val) in v {
                out.push_str(&format!("{n:?}={val:?} "));
            }
            out.push('}');
        }
        T::Struct(items) => {
            out.push_str("struct{");
            for it in items {
                dump_t(it, out);
                out.push(' ');
            }
            out.push('}');
        }
        T::TaggedStruct(items) | T::TaggedUnion(items) => {
            out.push_str(if matches!(t, T::TaggedStruct(_)) { "ts{" } else { "tu{" });
            let mut v: Vec<&Tagged> = items.iter().collect();
            v.sort_by(|a, b| a.tag.cmp(&b.tag));
            for it in v {
                out.push_str(&format!("({:?} {} {} ", it.tag, u8::from(it.is_block), u8::from(it.repeat)));
                match (&it.item, it.seq) {
                    (None, _) => out.push_str("none"),
                    (Some(x), false) => dump_t(x, out),
                    (Some(x), true) => {
                        out.push_str("seq(");
                        dump_t(x, out);
                        out.push(')');
                    }
                }
                out.push(')');
            }
            out.push('}');
        }
    }
}

fn count_nodes(t: &T) -> usize {
    1 + match t {
        T::Arr(of, _) => count_nodes(of),
        T::Struct(items) => items.iter().map(count_nodes).sum(),
        T::TaggedStruct(items) | T::TaggedUnion(items) => items.iter().map(|it| it.item.as_ref().map_or(0, count_nodes)).sum(),
        _ => 0,
    }
}

const SCALARS: [&str; 10] = ["char", "int", "long", "int64", "uchar", "uint", "ulong", "uint64", "float", "double"];

/// a definition of another shape: one node of `t` (the `k`-th in pre-order) is changed -- shorter / longer array, other
/// scalar type, string <-> number, member removed or added, enum with other items, tagged member without data / with
/// other block-ness / as a sequence, taggedstruct <-> taggedunion
fn mutate(t: &T, k: &mut usize, rng: &mut Rng) -> T {
    let here = *k == 0;
    *k = k.wrapping_sub(1);
    if here {
        return match t {
            T::Scalar(s) => {
                if rng.chance(1, 4) {
                    T::CharArr(8)
                } else {
                    let mut o = SCALARS[rng.below(10)];
                    if o == *s {
                        o = if *s == "uint" { "long" } else { "uint" };
                    }
                    T::Scalar(o)
                }
            }
            T::CharArr(_) => T::Scalar(SCALARS[rng.below(10)]),
            T::Arr(of, n) => match rng.below(3) {
                0 if *n > 1 => T::Arr(of.clone(), n - 1),
                1 => T::Arr(of.clone(), n + 1),
                _ if *n > 1 => T::Arr(of.clone(), 1),
                _ => (**of).clone(),
            },
            T::Enum(items) => {
                if rng.chance(1, 2) {
                    T::Enum(vec![("OTHER_ITEM".into(), None), (items[0].0.clone(), None)])
                } else {
                    T::Scalar("uint")
                }
            }
            T::Struct(items) => {
                let mut v = items.clone();
                match rng.below(3) {
                    0 if v.len() > 1 => {
                        v.pop();
                    }
                    1 if v.len() > 1 => {
                        v.remove(0);
                    }
                    _ => v.push(T::Scalar("ulong")),
                }
                T::Struct(v)
            }
            T::TaggedStruct(items) | T::TaggedUnion(items) => {
                let mut v = items.clone();
                let i = rng.below(v.len());
                match rng.below(5) {
                    0 => v[i].is_block = !v[i].is_block,
                    1 => v[i].item = None,
                    2 => {
                        // sequences of strings are ambiguous for the non-strict reader (see a2mlgen.rs)
                        v[i].seq = !v[i].seq && v[i].item.as_ref().map_or(false, |x| matches!(x, T::Scalar(_) | T::Enum(_)));
                    }
                    3 => v[i].item = Some(T::Scalar("uint")),
                    _ => {
                        return if matches!(t, T::TaggedStruct(_)) {
                            T::TaggedUnion(v.into_iter().map(|mut x| { x.repeat = false; x }).collect())
                        } else {
                            T::TaggedStruct(v)
                        };
                    }
                }
                if matches!(t, T::TaggedStruct(_)) { T::TaggedStruct(v) } else { T::TaggedUnion(v) }
            }
        };
    }
    match t {
        T::Arr(of, n) => T::Arr(Box::new(mutate(of, k, rng)), *n),
        T::Struct(items) => T::Struct(items.iter().map(|it| mutate(it, k, rng)).collect()),
        T::TaggedStruct(items) | T::TaggedUnion(items) => {
            let v: Vec<Tagged> = items
                .iter()
                .map(|it| Tagged { item: it.item.as_ref().map(|x| mutate(x, k, rng)), ..it.clone() })
                .collect();
            if matches!(t, T::TaggedStruct(_)) { T::TaggedStruct(v) } else { T::TaggedUnion(v) }
        }
        other => other.clone(),
    }
}

fn doc(a2ml: &str, insts: &[Vec<String>]) -> String {
    let mut s = String::from("ASAP2_VERSION 1 71\n/begin PROJECT p \"\"\n/begin MODULE m \"\"\n");
    s.push_str(&format!("/begin A2ML\n{a2ml}\n/end A2ML\n"));
    for (i, inst) in insts.iter().enumerate() {
        // every second block with one token per line and every /end one more line down (start and end offsets of the
        // items differ then)
        if i % 2 == 0 {
            s.push_str(&format!("/begin IF_DATA {}\n/end IF_DATA\n", inst.join(" ")));
        } else {
            let body: Vec<String> = inst.iter().map(|t| if t == "/end" { "\n    /end".to_string() } else { format!("    {t}") }).collect();
            s.push_str(&format!("/begin IF_DATA\n{}\n/end IF_DATA\n", body.join("\n").replace("/end\n    ", "/end ")));
        }
    }
    s.push_str("/end MODULE\n/end PROJECT\n");
    s
}

pub fn run(args: &Args) -> Report {
    let mut rep = Report::new(
        "C19",
        "a fixed set of a2ml_specification! invocations (compiled with the in-tree a2lmacros; together: all 10 scalar types, char[n], arrays, enums with / without values, named and anonymous structs, sequences of numbers / strings / structs, taggedstruct and taggedunion with repeated members, blocks, nested blocks, references to named types, root = taggedunion / taggedstruct / struct) x conforming IF_DATA instances from the instance generator x IF_DATA parsed under a different in-file definition (one node changed: array length, scalar type, members, enum items, block-ness, data, sequence, taggedstruct <-> taggedunion). non-trivial = every case; distinct = distinct (specification, definition, instance)",
    );
    let mut rng = Rng::new(args.seed);
    let n_inst = if args.thorough { 4000 } else { 150 };
    let n_mut = if args.thorough { 3000 } else { 150 };
    for s in specs() {
        // --- the generated text constant: accepted by the library's A2ML parser, same structure as the typed code
        let mut want = String::new();
        dump_t(&s.root, &mut want);
        match catch(|| a2lfile::verif_hooks::a2ml_dump(s.text)) {
            Err(p) => rep.fail("panic", format!("{} -", hex(s.text.as_bytes())), format!("A2ML parser panicked on the text constant of {}: {p}", s.name)),
            Ok(Err(e)) => rep.fail("constant-rejected", format!("{} -", hex(s.text.as_bytes())), format!("the text constant of {} is rejected by the A2ML parser: {e}", s.name)),
            Ok(Ok(got)) => {
                rep.case(&s.text, true);
                rep.tie(format!("aml {}", hex(s.text.as_bytes())), format!("ok {got}"));
                if got != want {
                    rep.fail("constant-structure", format!("{} -", hex(s.text.as_bytes())), format!("text constant of {} describes {got}, the specification is {want}", s.name));
                }
            }
        }
        // --- conforming instances: typed load, store, reload, write
        let mut batch: Vec<Vec<String>> = vec![];
        for i in 0..n_inst {
            let inst = gen_instance(&mut rng, &s.root);
            if inst.is_empty() || conforms(&s.root, &inst, false) != Some(true) {
                rep.bump("generator:instance-skipped");
                continue;
            }
            batch.push(inst);
            if batch.len() == 8 || i + 1 == n_inst {
                run_batch(&mut rep, &s, s.text, &batch, true, false);
                batch.clear();
            }
        }
        // --- shape mismatches: content parsed under a different definition, decoded with the typed code of `s`
        for _ in 0..n_mut {
            let mut k = rng.below(count_nodes(&s.root));
            let other = mutate(&s.root, &mut k, &mut rng);
            let (mut a, mut b) = (String::new(), String::new());
            dump_t(&s.root, &mut a);
            dump_t(&other, &mut b);
            if a == b {
                continue;
            }
            let text = {
                let mut g = A2mlGen::new(&mut rng);
                let root = g.render(&other);
                let mut t = String::new();
                for (kw, name, body) in &g.named {
                    t.push_str(&format!("{kw} {name} {body};\n"));
                }
                t.push_str(&format!("block \"IF_DATA\" {root};"));
                t
            };
            let insts: Vec<Vec<String>> = (0..4).map(|_| gen_instance(&mut rng, &other)).filter(|i| !i.is_empty() && conforms(&other, i, false) == Some(true)).collect();
            if insts.is_empty() {
                continue;
            }
            rep.bump("shape-mismatch");
            run_batch(&mut rep, &s, &text, &insts, false, false);
            // the same content under the specification's own text constant: whatever does not conform to it is flagged
            // invalid by the generic reader and never reaches the typed code (decided by the model through the tie)
            rep.bump("foreign-content-own-definition");
            let foreign: Vec<Vec<String>> = insts.iter().filter(|i| conforms(&s.root, i, true) == Some(false)).cloned().collect();
            if !foreign.is_empty() {
                run_batch(&mut rep, &s, s.text, &foreign, false, true);
            }
        }
        rep.sample(format!("{}: {}", s.name, want));
    }
    rep
}

fn count_tags(g: &a2lfile::GenericIfData) -> usize {
    use a2lfile::GenericIfData as G;
    match g {
        G::Array(v) | G::Sequence(v) | G::Struct(_, _, v) => v.iter().map(count_tags).sum(),
        G::Block { items, .. } => items.iter().map(count_tags).sum(),
        G::TaggedStruct(m) | G::TaggedUnion(m) => m.values().map(|l| 1 + l.iter().map(|i| count_tags(&i.data)).sum::<usize>()).sum(),
        _ => 0,
    }
}

/// empties the list of occurrences of the n-th tag (in sorted key order, depth first)
fn empty_one_tag(g: &mut a2lfile::GenericIfData, n: &mut usize) -> bool {
    use a2lfile::GenericIfData as G;
    match g {
        G::Array(v) | G::Sequence(v) | G::Struct(_, _, v) => v.iter_mut().any(|x| empty_one_tag(x, n)),
        G::Block { items, .. } => items.iter_mut().any(|x| empty_one_tag(x, n)),
        G::TaggedStruct(m) | G::TaggedUnion(m) => {
            let mut keys: Vec<String> = m.keys().cloned().collect();
            keys.sort();
            for key in keys {
                if *n == 0 {
                    m.get_mut(&key).unwrap().clear();
                    return true;
                }
                *n -= 1;
                if m.get_mut(&key).unwrap().iter_mut().any(|i| empty_one_tag(&mut i.data, n)) {
                    return true;
                }
            }
            false
        }
        _ => false,
    }
}

/// one document with the definition `a2ml` and the given IF_DATA contents; every block that the library flags valid is
/// decoded with the typed code of `s`
fn run_batch(rep: &mut Report, s: &SpecCase, a2ml: &str, insts: &[Vec<String>], conforming: bool, must_be_invalid: bool) {
    let text = doc(a2ml, insts);
    let input = format!("{} {}", s.name, hex(text.as_bytes()));
    rep.case(&input, true);
    let f = match catch(|| a2lfile::load_from_string(&text, None, false)) {
        Err(p) => {
            rep.fail("panic", input, format!("load panicked: {p}"));
            return;
        }
        Ok(Err(e)) => {
            rep.fail("infrastructure", input, format!("generated document rejected: {e}"));
            return;
        }
        Ok(Ok((f, _))) => f,
    };
    let original = f.write_to_string();
    let blocks = f.project.module[0].if_data.clone();
    if blocks.len() != insts.len() {
        rep.fail("infrastructure", input, format!("{} IF_DATA blocks expected, {} loaded", insts.len(), blocks.len()));
        return;
    }
    // correspondence: per block `inv` (flagged invalid), `none` (no typed value), `some:<file written with only the
    // block that the typed value was stored into>`
    let mut outcome: Vec<String> = vec![];
    for (k, ifdata) in blocks.iter().enumerate() {
        if !ifdata.ifdata_valid {
            outcome.push("inv".into());
            if conforming {
                rep.fail("conforming-invalid", input.clone(), format!("block #{k} [{}] conforms to the text constant of {} but is flagged invalid", insts[k].join(" "), s.name));
            }
            continue;
        }
        if must_be_invalid {
            rep.fail("nonconforming-valid", input.clone(), format!("block #{k} [{}] does not conform to the text constant of {} (reference reader, non-strict leniencies included) but is flagged valid", insts[k].join(" "), s.name));
        }
        let rt = s.roundtrip;
        // trees that only the API can build (the type and its fields are public): a tag whose list of occurrences is
        // empty, in place of each tag in turn and as an additional tag - decoding yields a value or none, never a panic
        {
            let mut variants: Vec<a2lfile::IfData> = vec![];
            let ntags = ifdata.ifdata_items.as_ref().map_or(0, count_tags);
            for which in 0..ntags.min(6) {
                let mut v = ifdata.clone();
                if let Some(g) = v.ifdata_items.as_mut() {
                    let mut n = which;
                    empty_one_tag(g, &mut n);
                }
                variants.push(v);
            }
            for v in &variants {
                rep.bump("hand-built:empty-occurrence-list");
                if let Err(p) = catch(|| rt(v).is_some()) {
                    rep.fail("mismatch-panic", input.clone(), format!("typed decoding of block #{k} [{}] with {}, one tag given an empty list of occurrences through the API, panicked: {p}", insts[k].join(" "), s.name));
                    break;
                }
            }
        }
        match catch(|| rt(ifdata)) {
            Err(p) => {
                outcome.push("PANIC".into());
                rep.fail(if conforming { "panic" } else { "mismatch-panic" }, input.clone(), format!("typed decoding of block #{k} [{}] with {} panicked: {p}", insts[k].join(" "), s.name));
            }
            Ok(None) => {
                outcome.push("none".into());
                if conforming {
                    rep.fail("typed-load-none", input.clone(), format!("load_from_ifdata yields no value for conforming block #{k} [{}] of {}", insts[k].join(" "), s.name));
                } else {
                    rep.bump("mismatch:no-value");
                }
            }
            Ok(Some((dbg, eq, same, fresh))) => {
                {
                    let mut f3 = f.clone();
                    f3.project.module[0].if_data = vec![fresh.clone()];
                    outcome.push(format!("some:{}", hex(f3.write_to_string().as_bytes())));
                }
                if !conforming {
                    rep.bump("mismatch:decoded-anyway");
                    continue;
                }
                rep.bump("typed-roundtrip");
                if !eq {
                    rep.fail("store-load-differs", input.clone(), format!("store_to_ifdata then load_from_ifdata yields a different value for block #{k} [{}]: {dbg}", insts[k].join(" ")));
                }
                // stored back into the block it came from: the written file is unchanged
                let mut f2 = f.clone();
                f2.project.module[0].if_data[k] = same;
                let w2 = f2.write_to_string();
                if w2 != original {
                    let d = crate::c01::first_diff(&original, &w2);
                    rep.fail("store-write-differs", input.clone(), format!("load, store and write changes the file for block #{k} [{}]: {d:?}", insts[k].join(" ")));
                }
                // stored into a fresh block: the values are the same
                // (a fresh block has no position and is written after the others: compare files with this block only)
                let mut f3 = f.clone();
                f3.project.module[0].if_data = vec![fresh];
                let w3 = f3.write_to_string();
                let mut f4 = f.clone();
                f4.project.module[0].if_data = vec![ifdata.clone()];
                let original = f4.write_to_string();
                match (crate::c02::sig_tokens(&original), crate::c02::sig_tokens(&w3)) {
                    (Some((a, _)), Some((b, _))) if a == b => {}
                    _ => {
                        let d = crate::c01::first_diff(&original, &w3);
                        rep.fail("fresh-store-values", input.clone(), format!("storing into a fresh IF_DATA block changes the written values for block #{k} [{}]: {d:?}", insts[k].join(" ")))
                    }
                }
            }
        }
    }
    rep.tie(format!("typ {} {} {}", hex(s.text.as_bytes()), hex(text.as_bytes()), crate::tree::float_table(&text)), outcome.join(","));
}
