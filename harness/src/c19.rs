//! C19: a2ml_specification! typed IF_DATA access round-trips.
//! A fixed set of macro invocations (compiled with the in-tree a2lmacros) that together use every A2ML construct;
//! each comes with a hand-written structural description `T` of the same definition (the reference for the
//! generated text constant and the source of conforming instances).
use crate::a2mlgen::*;
use crate::common::*;

pub struct SpecCase {
    pub name: &'static str,
    pub text: &'static str,
    pub root: T,
    /// load the typed value from an IF_DATA block, store it into (a) the same block and (b) a fresh block;
    /// returns None when load_from_ifdata yields no value, else (debug text of the value, value from fresh block equal?,
    /// the two blocks after storing)
    pub roundtrip: fn(&a2lfile::IfData) -> Option<(String, bool, a2lfile::IfData, a2lfile::IfData)>,
}

macro_rules! spec_case {
    ($m:ident, $ty:ident, $text:ident, $root:expr) => {
        SpecCase {
            name: stringify!($ty),
            text: $m::$text,
            root: $root,
            roundtrip: |ifdata| {
                let v = $m::$ty::load_from_ifdata(ifdata)?;
                let mut same = ifdata.clone();
                v.store_to_ifdata(&mut same);
                let mut fresh = a2lfile::IfData::new();
                v.store_to_ifdata(&mut fresh);
                let back = $m::$ty::load_from_ifdata(&fresh);
                let eq = back.as_ref() == Some(&v);
                Some((format!("{v:?}"), eq, same, fresh))
            },
        }
    };
}

fn sc(s: &'static str) -> T {
    T::Scalar(s)
}
fn tg(tag: &str, item: Option<T>, is_block: bool, repeat: bool, seq: bool) -> Tagged {
    Tagged { tag: tag.to_string(), item, seq, is_block, repeat }
}

mod s1 {
    a2lfile::a2ml_specification! {
        <Scalars>
        block "IF_DATA" taggedunion if_data {
            "CHAR" char a;
            "INT" int b;
            "LONG" long c;
            "INT64" int64 d;
            "UCHAR" uchar e;
            "UINT" uint f;
            "ULONG" ulong g;
            "UINT64" uint64 h;
            "DOUBLE" double i;
            "FLOAT" float j;
            "STR" char s[16];
            "NONE";
        };
    }
}

mod s2 {
    a2lfile::a2ml_specification! {
        <Shapes>
        enum Color { "RED" = 1, "GREEN" = 2, "BLUE" = 0x10 };
        struct Point { int x; int y; };
        block "IF_DATA" taggedunion {
            "POINT" struct Point;
            "ARR" uint arr[3];
            "FARR" float farr[2];
            "DARR" double darr[2];
            "COL" enum Color col;
            "ANON" enum { "A", "B", "C" } anon;
            "NEST" struct Outer { char name[8]; struct Point; long l[2]; enum Color; };
            "SEQ" (uint vals)*;
            "SEQS" (struct Pair { uchar a; char b; })*;
        };
    }
}

mod s3 {
    a2lfile::a2ml_specification! {
        <Tagged>
        taggedstruct Inner {
            "X" uint;
            ("Y" int)*;
            block "B" long;
            (block "RB" struct { uint; char[4]; })*;
            "FLAG";
        };
        block "IF_DATA" taggedstruct {
            "A" taggedstruct Inner;
            block "BLK" taggedunion {
                "U1" uint;
                "U2" double;
                block "U3" struct { int; taggedstruct Inner; };
            };
            ("REP" struct { uint id; taggedstruct { "OPT" uchar; }; })*;
        };
    }
}

mod s4 {
    a2lfile::a2ml_specification! {
        <RootStruct>
        block "IF_DATA" struct {
            uint version;
            char name[10];
            taggedstruct {
                "T1" uint;
                ("T2" char[5])*;
                block "SEQUENCE" (char[12] item)*;
            };
        };
    }
}

mod s5 {
    a2lfile::a2ml_specification! {
        <Deep>
        taggedunion Leaf { "L1" int64; "L2" uint64; };
        block "IF_DATA" taggedunion {
            block "LEVEL1" taggedstruct {
                block "LEVEL2" taggedstruct {
                    (block "LEVEL3" struct { uchar; taggedunion Leaf; })*;
                    "MARK";
                };
                "VAL" struct { float; double; };
            };
            "OTHER" taggedunion Leaf;
        };
    }
}

pub fn specs() -> Vec<SpecCase> {
    let point = || T::Struct(vec![sc("int"), sc("int")]);
    let color = || T::Enum(vec![("RED".into(), Some(1)), ("GREEN".into(), Some(2)), ("BLUE".into(), Some(16))]);
    let inner = || {
        T::TaggedStruct(vec![
            tg("X", Some(sc("uint")), false, false, false),
            tg("Y", Some(sc("int")), false, true, false),
            tg("B", Some(sc("long")), true, false, false),
            tg("RB", Some(T::Struct(vec![sc("uint"), T::CharArr(4)])), true, true, false),
            tg("FLAG", None, false, false, false),
        ])
    };
    let leaf = || T::TaggedUnion(vec![tg("L1", Some(sc("int64")), false, false, false), tg("L2", Some(sc("uint64")), false, false, false)]);
    vec![
        spec_case!(
            s1,
            Scalars,
            SCALARS_TEXT,
            T::TaggedUnion(vec![
                tg("CHAR", Some(sc("char")), false, false, false),
                tg("INT", Some(sc("int")), false, false, false),
                tg("LONG", Some(sc("long")), false, false, false),
                tg("INT64", Some(sc("int64")), false, false, false),
                tg("UCHAR", Some(sc("uchar")), false, false, false),
                tg("UINT", Some(sc("uint")), false, false, false),
                tg("ULONG", Some(sc("ulong")), false, false, false),
                tg("UINT64", Some(sc("uint64")), false, false, false),
                tg("DOUBLE", Some(sc("double")), false, false, false),
                tg("FLOAT", Some(sc("float")), false, false, false),
                tg("STR", Some(T::CharArr(16)), false, false, false),
                tg("NONE", None, false, false, false),
            ])
        ),
        spec_case!(
            s2,
            Shapes,
            SHAPES_TEXT,
            T::TaggedUnion(vec![
                tg("POINT", Some(point()), false, false, false),
                tg("ARR", Some(T::Arr(Box::new(sc("uint")), 3)), false, false, false),
                tg("FARR", Some(T::Arr(Box::new(sc("float")), 2)), false, false, false),
                tg("DARR", Some(T::Arr(Box::new(sc("double")), 2)), false, false, false),
                tg("COL", Some(color()), false, false, false),
                tg("ANON", Some(T::Enum(vec![("A".into(), None), ("B".into(), None), ("C".into(), None)])), false, false, false),
                tg("NEST", Some(T::Struct(vec![T::CharArr(8), point(), T::Arr(Box::new(sc("long")), 2), color()])), false, false, false),
                tg("SEQ", Some(sc("uint")), false, false, true),
                tg("SEQS", Some(T::Struct(vec![sc("uchar"), sc("char")])), false, false, true),
            ])
        ),
        spec_case!(
            s3,
            Tagged,
            TAGGED_TEXT,
            T::TaggedStruct(vec![
                tg("A", Some(inner()), false, false, false),
                tg(
                    "BLK",
                    Some(T::TaggedUnion(vec![
                        tg("U1", Some(sc("uint")), false, false, false),
                        tg("U2", Some(sc("double")), false, false, false),
                        tg("U3", Some(T::Struct(vec![sc("int"), inner()])), true, false, false),
                    ])),
                    true,
                    false,
                    false
                ),
                tg("REP", Some(T::Struct(vec![sc("uint"), T::TaggedStruct(vec![tg("OPT", Some(sc("uchar")), false, false, false)])])), false, true, false),
            ])
        ),
        spec_case!(
            s4,
            RootStruct,
            ROOTSTRUCT_TEXT,
            T::Struct(vec![
                sc("uint"),
                T::CharArr(10),
                T::TaggedStruct(vec![
                    tg("T1", Some(sc("uint")), false, false, false),
                    tg("T2", Some(T::CharArr(5)), false, true, false),
                    tg("SEQUENCE", Some(T::CharArr(12)), true, false, true),
                ]),
            ])
        ),
        spec_case!(
            s5,
            Deep,
            DEEP_TEXT,
            T::TaggedUnion(vec![
                tg(
                    "LEVEL1",
                    Some(T::TaggedStruct(vec![
                        tg(
                            "LEVEL2",
                            Some(T::TaggedStruct(vec![
                                tg("LEVEL3", Some(T::Struct(vec![sc("uchar"), leaf()])), true, true, false),
                                tg("MARK", None, false, false, false),
                            ])),
                            true,
                            false,
                            false
                        ),
                        tg("VAL", Some(T::Struct(vec![sc("float"), sc("double")])), false, false, false),
                    ])),
                    true,
                    false,
                    false
                ),
                tg("OTHER", Some(leaf()), false, false, false),
            ])
        ),
    ]
}

pub fn run(args: &Args) -> Report {
    let mut rep = Report::new("C19", "fixed set of a2ml_specification! invocations x conforming IF_DATA instances x shape mismatches");
    let _ = args;
    for s in specs() {
        println!("{}\n{}", s.name, s.text);
        let _ = &s.root;
        let _ = s.roundtrip;
    }
    rep.case(&"x", true);
    rep
}
