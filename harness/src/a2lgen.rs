//! shared A2L text generation and model snapshots for the module-level properties (C14, C15, ...)
use crate::common::*;
use a2lfile::{A2lFile, A2lObject, A2lObjectName, Module};

/// the 20 named element kinds of a MODULE in the order used by `sort()`, with a minimal valid body
pub const NAMED_KINDS: [(&str, &str); 20] = [
    ("CHARACTERISTIC", "\"\" VALUE 0x0 rl 0 NO_COMPU_METHOD 0 255"),
    ("MEASUREMENT", "\"\" UBYTE NO_COMPU_METHOD 0 0 0 255"),
    ("AXIS_PTS", "\"\" 0x0 NO_INPUT_QUANTITY rl 0 NO_COMPU_METHOD 5 0 255"),
    ("INSTANCE", "\"\" ts 0x0"),
    ("BLOB", "\"\" 0x0 4"),
    ("COMPU_METHOD", "\"\" IDENTICAL \"%6.2\" \"u\""),
    ("COMPU_TAB", "\"\" TAB_INTP 1 1 1"),
    ("COMPU_VTAB", "\"\" TAB_VERB 1 1 \"v\""),
    ("COMPU_VTAB_RANGE", "\"\" 1 1 2 \"v\""),
    ("TYPEDEF_STRUCTURE", "\"\" 4"),
    ("TYPEDEF_CHARACTERISTIC", "\"\" VALUE rl 0 NO_COMPU_METHOD 0 255"),
    ("TYPEDEF_MEASUREMENT", "\"\" UBYTE NO_COMPU_METHOD 0 0 0 255"),
    ("TYPEDEF_AXIS", "\"\" NO_INPUT_QUANTITY rl 0 NO_COMPU_METHOD 5 0 255"),
    ("TYPEDEF_BLOB", "\"\" 4"),
    ("FRAME", "\"\" 1 2"),
    ("FUNCTION", "\"\""),
    ("GROUP", "\"\""),
    ("RECORD_LAYOUT", ""),
    ("TRANSFORMER", "\"v\" \"x32\" \"x64\" 1 ON_CHANGE NO_INVERSE_TRANSFORMER"),
    ("UNIT", "\"\" \"u\" DERIVED"),
];

#[derive(Clone, Debug, PartialEq)]
pub struct SnapElem {
    pub tag: String,
    pub name: String,
    pub uid: u32,
    pub line: u32,
}

#[derive(Clone, Debug, PartialEq)]
pub struct SnapSection {
    pub kind: &'static str, // single | keep | byName
    pub rule: &'static str, // threaded | maxId | objectList | optionalZero
    pub elems: Vec<SnapElem>,
}

fn named<T: A2lObject<U> + A2lObjectName, U>(tag: &str, list: &a2lfile::ItemList<T>) -> SnapSection {
    SnapSection {
        kind: "byName",
        rule: "objectList",
        elems: list
            .iter()
            .map(|x| SnapElem {
                tag: tag.to_string(),
                name: x.get_name().to_string(),
                uid: x.get_layout().uid,
                line: x.get_layout().line,
            })
            .collect(),
    }
}

fn single<T: A2lObject<U>, U>(tag: &str, rule: &'static str, item: &Option<T>) -> SnapSection {
    SnapSection {
        kind: "single",
        rule,
        elems: item
            .iter()
            .map(|x| SnapElem {
                tag: tag.to_string(),
                name: String::new(),
                uid: x.get_layout().uid,
                line: x.get_layout().line,
            })
            .collect(),
    }
}

/// layout snapshot of a module, sections in the order of `sort()`
pub fn snapshot(m: &Module) -> (Vec<SnapSection>, Vec<SnapElem>) {
    let mut s = vec![
        single("A2ML", "threaded", &m.a2ml),
        single("MOD_COMMON", "threaded", &m.mod_common),
        single("MOD_PAR", "threaded", &m.mod_par),
        SnapSection {
            kind: "keep",
            rule: "maxId",
            elems: m
                .if_data
                .iter()
                .enumerate()
                .map(|(i, x)| SnapElem {
                    tag: "IF_DATA".into(),
                    name: format!("#{i}"),
                    uid: x.get_layout().uid,
                    line: x.get_layout().line,
                })
                .collect(),
        },
    ];
    s.push(named("CHARACTERISTIC", &m.characteristic));
    s.push(named("MEASUREMENT", &m.measurement));
    s.push(named("AXIS_PTS", &m.axis_pts));
    s.push(named("INSTANCE", &m.instance));
    s.push(named("BLOB", &m.blob));
    s.push(named("COMPU_METHOD", &m.compu_method));
    s.push(named("COMPU_TAB", &m.compu_tab));
    s.push(named("COMPU_VTAB", &m.compu_vtab));
    s.push(named("COMPU_VTAB_RANGE", &m.compu_vtab_range));
    s.push(named("TYPEDEF_STRUCTURE", &m.typedef_structure));
    s.push(named("TYPEDEF_CHARACTERISTIC", &m.typedef_characteristic));
    s.push(named("TYPEDEF_MEASUREMENT", &m.typedef_measurement));
    s.push(named("TYPEDEF_AXIS", &m.typedef_axis));
    s.push(named("TYPEDEF_BLOB", &m.typedef_blob));
    s.push(named("FRAME", &m.frame));
    s.push(named("FUNCTION", &m.function));
    s.push(named("GROUP", &m.group));
    s.push(named("RECORD_LAYOUT", &m.record_layout));
    s.push(named("TRANSFORMER", &m.transformer));
    s.push(named("UNIT", &m.unit));
    s.push(SnapSection {
        kind: "byName",
        rule: "maxId",
        elems: m
            .user_rights
            .iter()
            .map(|x| SnapElem {
                tag: "USER_RIGHTS".into(),
                name: x.user_level_id.clone(),
                uid: x.get_layout().uid,
                line: x.get_layout().line,
            })
            .collect(),
    });
    s.push(single("VARIANT_CODING", "optionalZero", &m.variant_coding));
    let comments = a2lfile::verif_hooks::module_comments(m)
        .into_iter()
        .map(|(uid, line, _, text)| SnapElem {
            tag: "//".into(),
            name: hex(text.trim().as_bytes()),
            uid,
            line,
        })
        .collect();
    (s, comments)
}

/// text form of a snapshot for the model: sections separated by `|`, `kind:rule:elem;elem`, elem = tag,name,uid,line
pub fn snapshot_text(s: &(Vec<SnapSection>, Vec<SnapElem>)) -> String {
    let el = |e: &SnapElem| format!("{},{},{},{}", e.tag, if e.name.is_empty() { "-" } else { &e.name }, e.uid, e.line);
    let mut parts: Vec<String> = s
        .0
        .iter()
        .map(|sec| format!("{}:{}:{}", sec.kind, sec.rule, sec.elems.iter().map(el).collect::<Vec<_>>().join(";")))
        .collect();
    parts.push(format!("comments::{}", s.1.iter().map(el).collect::<Vec<_>>().join(";")));
    parts.join("|")
}

/// uids only, same shape (answer of the implementation after sort / sort_new_items)
pub fn uids_text(s: &(Vec<SnapSection>, Vec<SnapElem>)) -> String {
    let el = |e: &SnapElem| format!("{}={}", if e.name.is_empty() { "-" } else { &e.name }, e.uid);
    let mut parts: Vec<String> = s.0.iter().map(|sec| sec.elems.iter().map(el).collect::<Vec<_>>().join(";")).collect();
    parts.push(s.1.iter().map(el).collect::<Vec<_>>().join(";"));
    parts.join("|")
}

/// split A2L text (generated by us: no `/begin` inside strings) into tokens, keeping quoted strings and comments whole
pub fn rough_tokens(text: &str) -> Vec<String> {
    let b = text.as_bytes();
    let mut i = 0;
    let mut out = vec![];
    while i < b.len() {
        if b[i].is_ascii_whitespace() {
            i += 1;
        } else if b[i] == b'"' {
            let st = i;
            i += 1;
            while i < b.len() {
                if b[i] == b'\\' {
                    i += 2;
                    continue;
                }
                if b[i] == b'"' {
                    if i + 1 < b.len() && b[i + 1] == b'"' {
                        i += 2;
                        continue;
                    }
                    break;
                }
                i += 1;
            }
            i = (i + 1).min(b.len());
            out.push(String::from_utf8_lossy(&b[st..i]).into_owned());
        } else if b[i] == b'/' && i + 1 < b.len() && b[i + 1] == b'*' {
            let st = i;
            i += 2;
            while i + 1 < b.len() && !(b[i] == b'*' && b[i + 1] == b'/') {
                i += 1;
            }
            i = (i + 2).min(b.len());
            out.push(String::from_utf8_lossy(&b[st..i]).into_owned());
        } else if b[i] == b'/' && i + 1 < b.len() && b[i + 1] == b'/' {
            let st = i;
            while i < b.len() && b[i] != b'\n' {
                i += 1;
            }
            out.push(String::from_utf8_lossy(&b[st..i]).into_owned());
        } else {
            let st = i;
            while i < b.len() && !b[i].is_ascii_whitespace() {
                i += 1;
            }
            out.push(String::from_utf8_lossy(&b[st..i]).into_owned());
        }
    }
    out
}

/// order of the children of each MODULE in written text: "TAG name" per child block, comments as "// <hex>"
pub fn written_children(text: &str) -> Vec<Vec<String>> {
    let toks = rough_tokens(text);
    let mut depth = 0usize;
    let mut modules: Vec<Vec<String>> = vec![];
    let mut module_depth: Option<usize> = None;
    let mut i = 0;
    while i < toks.len() {
        let t = &toks[i];
        if t == "/begin" && i + 1 < toks.len() {
            let tag = &toks[i + 1];
            if tag == "MODULE" && module_depth.is_none() {
                module_depth = Some(depth + 1);
                modules.push(vec![]);
            } else if Some(depth) == module_depth {
                let name = toks.get(i + 2).cloned().unwrap_or_default();
                let has_name = !matches!(tag.as_str(), "A2ML" | "MOD_COMMON" | "MOD_PAR" | "IF_DATA" | "VARIANT_CODING");
                modules.last_mut().unwrap().push(if has_name { format!("{tag} {name}") } else { tag.to_string() });
                if tag == "A2ML" {
                    // skip the raw A2ML text up to /end A2ML
                    while i + 1 < toks.len() && !(toks[i] == "/end" && toks[i + 1] == "A2ML") {
                        i += 1;
                    }
                    i += 2;
                    continue;
                }
            }
            depth += 1;
            i += 2;
            continue;
        }
        if t == "/end" {
            if Some(depth) == module_depth {
                module_depth = None;
            }
            depth = depth.saturating_sub(1);
            i += 2;
            continue;
        }
        if (t.starts_with("/*") || t.starts_with("//")) && Some(depth) == module_depth {
            modules.last_mut().unwrap().push(format!("// {}", hex(t.trim().as_bytes())));
        }
        i += 1;
    }
    modules
}

pub struct GenElem {
    pub kind: usize, // index into NAMED_KINDS, 100 = IF_DATA, 101 = USER_RIGHTS, 102.. singles, 200 = comment
    pub name: String,
}

pub fn elem_text(e: &GenElem) -> String {
    match e.kind {
        k if k < 20 => {
            let (tag, body) = NAMED_KINDS[k];
            format!("/begin {tag} {} {body} /end {tag}", e.name)
        }
        100 => format!("/begin IF_DATA {} 1 2 /end IF_DATA", e.name),
        101 => format!("/begin USER_RIGHTS {} /end USER_RIGHTS", e.name),
        // an A2ML block the A2ML parser accepts, one without `block "IF_DATA"` and one that does not parse at all (both
        // are kept as raw text with a warning in non-strict loading)
        102 => [
            "/begin A2ML\n block \"IF_DATA\" taggedunion { \"X\" struct { int; }; };\n/end A2ML",
            "/begin A2ML\n struct NoIfData { uint; };\n/end A2ML",
            "/begin A2ML\n block \"IF_DATA\" taggedunion {\n/end A2ML",
        ][e.name.bytes().map(|b| b as usize).sum::<usize>() % 3]
            .to_string(),
        103 => "/begin MOD_COMMON \"\" /end MOD_COMMON".to_string(),
        104 => "/begin MOD_PAR \"\" /end MOD_PAR".to_string(),
        105 => "/begin VARIANT_CODING /end VARIANT_CODING".to_string(),
        _ => format!("/* {} */", e.name),
    }
}

/// a random module body: elements of random kinds in random order (names unique per namespace), optional singles
pub fn random_module_elems(rng: &mut Rng, prefix: &str, max_elems: usize, with_comments: bool) -> Vec<GenElem> {
    let mut v = vec![];
    let n = 1 + rng.below(max_elems);
    let kinds_used = 1 + rng.below(8);
    let kinds: Vec<usize> = (0..kinds_used).map(|_| rng.below(20)).collect();
    for i in 0..n {
        let k = kinds[rng.below(kinds.len())];
        // names in random (not sorted) order
        // (also long names that share a long prefix: the order is decided far behind the first characters)
        let name = format!("{prefix}{}_{}", ["q", "b", "z", "a", "m", "Zz", "_x", "k1", "EngineSpeedSensorSignal_Filtered", "EngineSpeedSensorSignal_Raw", "EngineSpeedSensorSignal"][rng.below(11)], i);
        v.push(GenElem { kind: k, name });
    }
    for single in [102, 103, 104, 105] {
        if rng.chance(1, 2) {
            let pos = rng.below(v.len() + 1);
            v.insert(pos, GenElem { kind: single, name: if single == 102 { format!("{pos}") } else { String::new() } });
        }
    }
    for j in 0..rng.below(3) {
        let pos = rng.below(v.len() + 1);
        v.insert(pos, GenElem { kind: 100, name: format!("ifd{j}") });
    }
    for j in 0..rng.below(3) {
        let pos = rng.below(v.len() + 1);
        v.insert(pos, GenElem { kind: 101, name: format!("{}usr{j}", ["b", "a", "c"][rng.below(3)]) });
    }
    if with_comments {
        for j in 0..rng.below(3) {
            let pos = rng.below(v.len() + 1);
            v.insert(pos, GenElem { kind: 200, name: format!("c{j}") });
        }
    }
    v
}

pub fn file_text(modules: &[Vec<GenElem>], rng: &mut Rng) -> String {
    let mut s = String::from("ASAP2_VERSION 1 71\n/begin PROJECT p \"\"\n");
    let last = modules.len().saturating_sub(1);
    for (i, m) in modules.iter().enumerate() {
        // sometimes a line comment at PROJECT level
        if rng.chance(1, 4) {
            s.push_str(&format!("  // project level note {i}\n"));
        }
        s.push_str(&format!("  /begin MODULE m{i} \"\"\n"));
        for e in m {
            for _ in 0..rng.below(2) {
                s.push('\n');
            }
            s.push_str("    ");
            s.push_str(&elem_text(e));
            s.push('\n');
        }
        // sometimes the closing tags share a line
        if i == last && rng.chance(1, 3) {
            s.push_str("  /end MODULE ");
        } else {
            s.push_str("  /end MODULE\n");
        }
    }
    s.push_str("/end PROJECT\n");
    s
}

pub fn load(text: &str) -> Result<A2lFile, String> {
    match catch(|| a2lfile::load_from_string(text, None, false)) {
        Ok(Ok((f, _))) => Ok(f),
        Ok(Err(e)) => Err(format!("load error: {e}")),
        Err(p) => Err(format!("panic: {p}")),
    }
}
