//! C10: cleanup() removes only, and all, unreferenced helper elements.
use crate::common::*;
use crate::docgen::*;
use crate::graph::*;
use std::collections::{BTreeMap, BTreeSet};

fn is_helper(ns: Ns) -> bool {
    matches!(ns, Ns::Group | Ns::Function | Ns::CompuMethod | Ns::CompuTab | Ns::Unit | Ns::RecordLayout)
}

/// canonical text of an element in which every reference that was dangling before the call (or is a convention
/// name) is left out, and children that became empty are left out: "unchanged apart from repaired dangling references"
fn norm(e: &Elem, dangling: &BTreeSet<(Ns, String)>, out: &mut String) -> bool {
    let mut any = false;
    out.push_str(&e.tag);
    for (site, v) in &e.params {
        if !site.is_empty() {
            if let Some(Site::Ref(ns)) = site_of(site) {
                if is_convention(site, v) || dangling.contains(&(ns, v.clone())) {
                    continue;
                }
            }
        }
        any = true;
        out.push(' ');
        out.push_str(v);
    }
    let mut cs: Vec<String> = vec![];
    for c in &e.children {
        let mut s = String::new();
        if norm(c, dangling, &mut s) || c.params.iter().all(|p| p.0.is_empty()) && c.params.is_empty() && c.children.is_empty() && !has_ref_site(c) {
            cs.push(s);
        }
    }
    cs.sort();
    for c in cs {
        any = true;
        out.push_str(" {");
        out.push_str(&c);
        out.push('}');
    }
    any
}

/// does this element type hold references only (so that it may vanish when all of them are repaired away)?
fn has_ref_site(e: &Elem) -> bool {
    matches!(e.tag.as_str(), "FUNCTION_LIST" | "REF_CHARACTERISTIC" | "REF_MEASUREMENT" | "SUB_GROUP" | "SUB_FUNCTION" | "DEF_CHARACTERISTIC" | "IN_MEASUREMENT" | "LOC_MEASUREMENT" | "OUT_MEASUREMENT" | "COMPU_TAB_REF" | "REF_UNIT" | "STATUS_STRING_REF")
}

pub fn run(args: &Args) -> Report {
    let mut rep = Report::new(
        "C10",
        "modules from the reference-aware generator: every reference site populated at random (so helpers are used only from unusual sites, chains and cycles of SUB_GROUP / SUB_FUNCTION / REF_UNIT arise, many helpers stay unused), with 0% / 15% dangling references; hand-kept scenarios (STATUS_STRING_REF-only table, AXIS_DESCR in TYPEDEF_CHARACTERISTIC, unit chain, ROOT group with AXIS_PTS member, S_REC_LAYOUT, USER_RIGHTS group); cleanup() once and twice. non-trivial = cleanup changed the module; distinct = distinct texts",
    );
    let g = match Grammar::load() {
        Ok(g) => g,
        Err(e) => {
            rep.fail("infrastructure", String::new(), e);
            return rep;
        }
    };
    let mut rng = Rng::new(args.seed);
    let mut texts: Vec<(String, &'static str)> = vec![];
    if let Some(input) = &args.replay {
        texts.push((String::from_utf8_lossy(&unhex(input.split_whitespace().next().unwrap_or("-"))).into_owned(), "replay"));
    } else {
        let n = if args.thorough { 15000 } else { 750 };
        for i in 0..n {
            let mut gm = gen_module(&g, &mut rng, "", 1 + i % 3, [20, 45, 70][i % 3], true);
            gm.resolve_refs(&mut rng, if i % 2 == 0 { 0 } else { 15 });
            texts.push((gm.text("m", &mut rng), if i % 2 == 0 { "consistent" } else { "with-dangling" }));
        }
        let wrap = |body: &str| format!("ASAP2_VERSION 1 71 /begin PROJECT p \"\" /begin MODULE m \"\" {body} /end MODULE /end PROJECT");
        for body in [
            // STATUS_STRING_REF is the only user of a COMPU_VTAB
            "/begin MEASUREMENT me \"\" UBYTE cm 0 0 0 1 /end MEASUREMENT /begin COMPU_METHOD cm \"\" IDENTICAL \"%1\" \"\" STATUS_STRING_REF vt /end COMPU_METHOD /begin COMPU_VTAB vt \"\" TAB_VERB 1 1 \"x\" /end COMPU_VTAB",
            // COMPU_METHOD used only from an AXIS_DESCR inside a TYPEDEF_CHARACTERISTIC
            "/begin RECORD_LAYOUT rl FNC_VALUES 1 UBYTE COLUMN_DIR DIRECT /end RECORD_LAYOUT /begin TYPEDEF_CHARACTERISTIC tc \"\" CURVE rl 0 NO_COMPU_METHOD 0 1 /begin AXIS_DESCR FIX_AXIS NO_INPUT_QUANTITY cm 1 0 1 /end AXIS_DESCR /end TYPEDEF_CHARACTERISTIC /begin COMPU_METHOD cm \"\" IDENTICAL \"%1\" \"\" /end COMPU_METHOD",
            // unit chain: a is referenced only by b, b is unused
            "/begin UNIT a \"\" \"\" DERIVED /end UNIT /begin UNIT b \"\" \"\" DERIVED REF_UNIT a /end UNIT",
            // unit chain that is used: cm -> b -> a
            "/begin MEASUREMENT me \"\" UBYTE cm 0 0 0 1 /end MEASUREMENT /begin COMPU_METHOD cm \"\" IDENTICAL \"%1\" \"\" REF_UNIT b /end COMPU_METHOD /begin UNIT a \"\" \"\" DERIVED /end UNIT /begin UNIT b \"\" \"\" DERIVED REF_UNIT a /end UNIT",
            // ROOT group whose only member is an AXIS_PTS
            "/begin RECORD_LAYOUT rl AXIS_PTS_X 1 UBYTE INDEX_INCR DIRECT /end RECORD_LAYOUT /begin AXIS_PTS ap \"\" 0 NO_INPUT_QUANTITY rl 0 NO_COMPU_METHOD 2 0 1 /end AXIS_PTS /begin GROUP g \"\" ROOT /begin REF_CHARACTERISTIC ap /end REF_CHARACTERISTIC /end GROUP",
            // RECORD_LAYOUT used only by MOD_COMMON S_REC_LAYOUT; empty group used by USER_RIGHTS
            "/begin MOD_COMMON \"\" S_REC_LAYOUT rl /end MOD_COMMON /begin RECORD_LAYOUT rl /end RECORD_LAYOUT /begin GROUP g \"\" /end GROUP /begin USER_RIGHTS u /begin REF_GROUP g /end REF_GROUP /end USER_RIGHTS",
            // sub-group cycle of empty groups, sub-function cycle
            "/begin GROUP g1 \"\" /begin SUB_GROUP g2 /end SUB_GROUP /end GROUP /begin GROUP g2 \"\" /begin SUB_GROUP g1 /end SUB_GROUP /end GROUP /begin FUNCTION f1 \"\" /begin SUB_FUNCTION f2 /end SUB_FUNCTION /end FUNCTION /begin FUNCTION f2 \"\" /begin SUB_FUNCTION f1 /end SUB_FUNCTION /end FUNCTION",
            // INSTANCE OVERWRITE CONVERSION is the only user of a COMPU_METHOD
            "/begin TYPEDEF_MEASUREMENT tm \"\" UBYTE NO_COMPU_METHOD 0 0 0 1 /end TYPEDEF_MEASUREMENT /begin INSTANCE i \"\" tm 0 /begin OVERWRITE x 0 CONVERSION cm /end OVERWRITE /end INSTANCE /begin COMPU_METHOD cm \"\" IDENTICAL \"%1\" \"\" /end COMPU_METHOD",
        ] {
            texts.push((wrap(body), "scenario"));
        }
        // a deletable (empty, unused) FUNCTION / GROUP that several parents list: every parent has to be unlinked
        for variant in 0..(if args.thorough { 24 } else { 8 }) {
            let nparents = 2 + variant % 3;
            let mut fs: Vec<String> = vec!["/begin FUNCTION shared \"\" /end FUNCTION".to_string()];
            let mut gs: Vec<String> = vec!["/begin GROUP gshared \"\" /end GROUP".to_string()];
            for p in 0..nparents {
                let used = (variant + p) % 2 == 0;
                fs.push(format!("/begin FUNCTION par{p} \"\" {} /begin SUB_FUNCTION shared /end SUB_FUNCTION /end FUNCTION", if used { "/begin OUT_MEASUREMENT me /end OUT_MEASUREMENT" } else { "" }));
                gs.push(format!("/begin GROUP gpar{p} \"\" ROOT {} /begin SUB_GROUP gshared /end SUB_GROUP /end GROUP", if used { "/begin REF_MEASUREMENT me /end REF_MEASUREMENT" } else { "" }));
            }
            for v in [&mut fs, &mut gs] {
                for i in (1..v.len()).rev() {
                    let j = rng.below(i + 1);
                    v.swap(i, j);
                }
            }
            texts.push((wrap(&format!("/begin MEASUREMENT me \"\" UBYTE NO_COMPU_METHOD 0 0 0 1 /end MEASUREMENT {} {}", fs.join(" "), gs.join(" "))), "chain"));
        }
        // INSTANCE with several OVERWRITE blocks, the conversion only in a later one
        texts.push((wrap("/begin TYPEDEF_MEASUREMENT tm \"\" UBYTE NO_COMPU_METHOD 0 0 0 1 /end TYPEDEF_MEASUREMENT /begin INSTANCE i \"\" tm 0 /begin OVERWRITE a 0 /end OVERWRITE /begin OVERWRITE b 0 CONVERSION cm /end OVERWRITE /begin OVERWRITE c 0 /end OVERWRITE /end INSTANCE /begin COMPU_METHOD cm \"\" IDENTICAL \"%1\" \"\" /end COMPU_METHOD"), "scenario"));
        // chains of helpers in every definition order: UNIT -> REF_UNIT chains (used from a COMPU_METHOD or not),
        // GROUP / FUNCTION hierarchies whose only content sits at the far end (or nowhere)
        for len in 2..=5usize {
            for variant in 0..(if args.thorough { 24 } else { 6 }) {
                let used = variant % 2 == 0;
                let mut order: Vec<usize> = (1..=len).collect();
                match variant % 3 {
                    0 => {}
                    1 => order.reverse(),
                    _ => {
                        for i in (1..order.len()).rev() {
                            let j = rng.below(i + 1);
                            order.swap(i, j);
                        }
                    }
                }
                let units: Vec<String> = order.iter().map(|&k| if k == 1 { "/begin UNIT u1 \"\" \"\" DERIVED /end UNIT".to_string() } else { format!("/begin UNIT u{k} \"\" \"\" DERIVED REF_UNIT u{} /end UNIT", k - 1) }).collect();
                let head = if used { format!("/begin MEASUREMENT me \"\" UBYTE cm 0 0 0 1 /end MEASUREMENT /begin COMPU_METHOD cm \"\" IDENTICAL \"%1\" \"\" REF_UNIT u{len} /end COMPU_METHOD") } else { String::new() };
                texts.push((wrap(&format!("{head} {}", units.join(" "))), "chain"));
                let groups: Vec<String> = order.iter().map(|&k| if k == len { if used { format!("/begin GROUP g{k} \"\" /begin REF_MEASUREMENT me /end REF_MEASUREMENT /end GROUP") } else { format!("/begin GROUP g{k} \"\" /end GROUP") } } else { format!("/begin GROUP g{k} \"\" {} /begin SUB_GROUP g{} /end SUB_GROUP /end GROUP", if k == 1 { "ROOT" } else { "" }, k + 1) }).collect();
                let funcs: Vec<String> = order.iter().map(|&k| if k == len { if used { format!("/begin FUNCTION f{k} \"\" /begin OUT_MEASUREMENT me /end OUT_MEASUREMENT /end FUNCTION") } else { format!("/begin FUNCTION f{k} \"\" /end FUNCTION") } } else { format!("/begin FUNCTION f{k} \"\" /begin SUB_FUNCTION f{} /end SUB_FUNCTION /end FUNCTION", k + 1) }).collect();
                texts.push((wrap(&format!("/begin MEASUREMENT me \"\" UBYTE NO_COMPU_METHOD 0 0 0 1 /end MEASUREMENT {} {}", groups.join(" "), funcs.join(" "))), "chain"));
            }
        }
    }
    for (i, (text, family)) in texts.iter().enumerate() {
        let input = hex(text.as_bytes());
        let Ok(mut file) = crate::a2lgen::load(text) else {
            rep.fail("generator", input, "does not load".into());
            continue;
        };
        let w0 = file.write_to_string();
        let Some(m0) = read_modules(&g, &w0).and_then(|m| m.into_iter().next()) else {
            rep.fail("infrastructure", input, "cannot read back".into());
            continue;
        };
        let g0 = match graph_of(&m0) {
            Ok(x) => x,
            Err(e) => {
                rep.fail("infrastructure", input, e);
                continue;
            }
        };
        if let Err(p) = catch(|| file.cleanup()) {
            rep.fail("panic", input, p);
            continue;
        }
        let w1 = file.write_to_string();
        rep.case(text, w1 != w0);
        rep.bump(family);
        let Some(m1) = read_modules(&g, &w1).and_then(|m| m.into_iter().next()) else {
            rep.fail("infrastructure", input, "cannot read back after cleanup".into());
            continue;
        };
        let Ok(g1) = graph_of(&m1) else { continue };
        let dang0: BTreeSet<(Ns, String)> = g0.dangling().into_iter().map(|(ns, r)| (ns, r.target)).collect();
        // (1) only helpers are removed; nothing is added
        for (ns, defs) in &g0.defs {
            for name in defs.keys() {
                let still = g1.defs.get(ns).map_or(false, |d| d.contains_key(name));
                if !still && !is_helper(*ns) {
                    rep.fail("removed-non-helper", input.clone(), format!("{ns:?} {name} was removed by cleanup()"));
                }
            }
        }
        for (ns, defs) in &g1.defs {
            for name in defs.keys() {
                if !g0.defs.get(ns).map_or(false, |d| d.contains_key(name)) {
                    rep.fail("added", input.clone(), format!("{ns:?} {name} appeared during cleanup()"));
                }
            }
        }
        // (2) objects and typedefs are not altered (apart from repaired references that were already dangling)
        let by_id = |m: &Elem| -> BTreeMap<(String, String), String> {
            m.children
                .iter()
                .map(|c| {
                    let mut s = String::new();
                    norm(c, &dang0, &mut s);
                    ((c.tag.clone(), c.params.first().map(|p| p.1.clone()).unwrap_or_default()), s)
                })
                .collect()
        };
        let (b0, b1) = (by_id(&m0), by_id(&m1));
        for c in &m0.children {
            let first_site = c.params.first().map(|p| p.0.clone()).unwrap_or_default();
            if let Some(Site::Def(ns)) = site_of(&first_site) {
                if ns == Ns::Object || ns == Ns::Typedef {
                    let id = (c.tag.clone(), c.params[0].1.clone());
                    if b1.get(&id).is_some() && b0.get(&id) != b1.get(&id) {
                        rep.fail("altered", input.clone(), format!("{} {} was altered by cleanup(): {:?} -> {:?}", id.0, id.1, b0.get(&id), b1.get(&id)));
                    }
                }
            }
        }
        // (3)+(4) no new dangling reference: nothing that remains refers to something that was removed
        let new_dangling: Vec<_> = g1.dangling().into_iter().filter(|(ns, r)| !dang0.contains(&(*ns, r.target.clone()))).collect();
        if let Some((ns, r)) = new_dangling.first() {
            rep.fail("new-dangling", input.clone(), format!("after cleanup() {} {} still refers to the removed {ns:?} {} at {}", r.owner.0, r.owner.1, r.target, r.site));
        }
        // (5) all unreferenced COMPU_METHOD / conversion table / UNIT / RECORD_LAYOUT are gone
        for ns in [Ns::CompuMethod, Ns::CompuTab, Ns::Unit, Ns::RecordLayout] {
            if let Some(defs) = g1.defs.get(&ns) {
                for name in defs.keys() {
                    if !g1.refs.iter().any(|(n, r)| *n == ns && r.target == *name) {
                        rep.fail("unreferenced-kept", input.clone(), format!("{ns:?} {name} is unreferenced after cleanup() but was not removed"));
                    }
                }
            }
        }
        // (5b) "... and all": no GROUP / FUNCTION remains that has no member at all (no object reference, no sub-group /
        //      sub-function entry) and that nothing refers to (USER_RIGHTS REF_GROUP; FUNCTION_LIST of an object or group)
        for (tag, ns, member_sites) in [
            ("GROUP", Ns::Group, &["RefCharacteristic.identifier_list", "RefMeasurement.identifier_list", "SubGroup.identifier_list"][..]),
            ("FUNCTION", Ns::Function, &["DefCharacteristic.identifier_list", "RefCharacteristic.identifier_list", "InMeasurement.identifier_list", "LocMeasurement.identifier_list", "OutMeasurement.identifier_list", "SubFunction.identifier_list"][..]),
        ] {
            for (otag, name) in g1.order.iter().filter(|(t, _)| t == tag) {
                let members = g1.refs.iter().filter(|(_, r)| r.owner.0 == *otag && r.owner.1 == *name && member_sites.contains(&r.site.as_str())).count();
                let used = g1.refs.iter().any(|(n, r)| *n == ns && r.target == *name && !(r.site == "SubGroup.identifier_list" || r.site == "SubFunction.identifier_list"));
                let listed = g1.refs.iter().any(|(n, r)| *n == ns && r.target == *name);
                if members == 0 && !used && !listed {
                    rep.fail("unreferenced-kept", input.clone(), format!("{tag} {name} has no members and nothing refers to it after cleanup(), but it was not removed"));
                }
            }
        }
        rep.tie(format!("cln {}", nodes_text_nohash(&m0)), nodes_text_nohash(&m1));
        // (6) idempotent
        let mut twice = file.clone();
        if let Err(p) = catch(|| twice.cleanup()) {
            rep.fail("panic", input.clone(), p);
        } else if twice.write_to_string() != w1 {
            let w2 = twice.write_to_string();
            let gone: Vec<String> = read_modules(&g, &w2).and_then(|m| m.into_iter().next()).map(|m2| {
                let ids2: BTreeSet<(String, String)> = m2.children.iter().map(|c| (c.tag.clone(), c.params.first().map(|p| p.1.clone()).unwrap_or_default())).collect();
                m1.children.iter().map(|c| (c.tag.clone(), c.params.first().map(|p| p.1.clone()).unwrap_or_default())).filter(|id| !ids2.contains(id)).map(|id| format!("{} {}", id.0, id.1)).collect()
            }).unwrap_or_default();
            rep.fail("not-idempotent", input.clone(), format!("a second cleanup() changes the file again; removed in the second run: {gone:?}"));
        }
        if i % 53 == 0 {
            rep.sample(format!("{family}: {} definitions before, {} after, {} references", g0.order.len(), g1.order.len(), g0.refs.len()));
        }
    }
    rep
}
