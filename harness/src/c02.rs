//! C02: content preservation. Oracle on the real code: the significant tokens of the written text equal those of the
//! input (modulo whitespace, number / escape notation, reordering of position-restricted items, dropped non-block-level
//! comments); uninterpreted IF_DATA passes through; numeric literals beyond a field's range are diagnosed.
use crate::common::*;
use crate::docgen::*;
use crate::tree::*;

#[derive(Clone, Debug, PartialEq, Eq, PartialOrd, Ord)]
pub enum Sig {
    Begin,
    End,
    Ident(String),
    Str(String),
    Num(u64),      // f64 bits of the value (integers below 2^53 included)
    Big(String),   // integers that do not fit an f64 exactly: decimal text of the value
    BadNum(String),
}

fn unescape(s: &str) -> String {
    // value of a quoted string token as the format defines it: "" and \" are quotes, \\ \n \r \t \'
    let inner: Vec<char> = s[1..s.len() - 1].chars().collect();
    let mut out = String::new();
    let mut i = 0;
    while i < inner.len() {
        let c = inner[i];
        if i + 1 < inner.len() {
            let d = inner[i + 1];
            let r = match (c, d) {
                ('\\', '"') | ('"', '"') => Some('"'),
                ('\\', '\'') => Some('\''),
                ('\\', '\\') => Some('\\'),
                ('\\', 'n') => Some('\n'),
                ('\\', 'r') => Some('\r'),
                ('\\', 't') => Some('\t'),
                _ => None,
            };
            if let Some(r) = r {
                out.push(r);
                i += 2;
                continue;
            }
        }
        out.push(c);
        i += 1;
    }
    out
}

fn num_key(t: &str) -> Sig {
    let int: Option<i128> = if t.len() > 2 && (t.starts_with("0x") || t.starts_with("0X")) { u128::from_str_radix(&t[2..], 16).ok().map(|v| v as i128) } else { t.parse::<i128>().ok() };
    if let Some(v) = int {
        // generic documents compare numbers as f64 values (a float field stores an f64; the exactness of wide integer
        // fields is checked separately, with knowledge of the field type, in the limit-literal part)
        let f = v as f64;
        return Sig::Num(if f == 0.0 { 0 } else { f.to_bits() });
    }
    match t.parse::<f64>() {
        Ok(f) => {
            Sig::Num(if f == 0.0 { 0 } else { f.to_bits() })
        }
        Err(_) => Sig::BadNum(t.to_string()),
    }
}

/// significant tokens; `hex_twos`: hex literals are compared by text (upper-cased), because their value depends on
/// the width of the field (two's complement)
pub fn sig_tokens(text: &str) -> Option<(Vec<Sig>, Vec<String>)> {
    let toks = catch(|| a2lfile::verif_hooks::tokenize_dump(text)).ok()?.ok()?;
    let mut sig = vec![];
    let mut block_comments = vec![];
    let mut depth_kinds: Vec<u8> = vec![];
    for (i, t) in toks.iter().enumerate() {
        let s = &text[t.1..t.2];
        match t.0 {
            0 => sig.push(Sig::Ident(s.to_string())),
            1 => sig.push(Sig::Begin),
            2 => sig.push(Sig::End),
            4 => sig.push(if s.starts_with('"') && s.len() >= 2 { Sig::Str(unescape(s)) } else { Sig::Str(s.split_whitespace().collect::<Vec<_>>().join(" ")) }),
            5 => sig.push(num_key(s)),
            6 => {
                // a comment "between block-level elements": directly in front of /begin or /end
                if toks.get(i + 1).map_or(false, |n| n.0 == 1 || n.0 == 2 || n.0 == 6) {
                    block_comments.push(s.trim().to_string());
                }
            }
            _ => {}
        }
        let _ = &mut depth_kinds;
    }
    Some((sig, block_comments))
}

const INT_FIELDS: [(&str, &str, i128, i128); 5] = [
    ("ARRAY_SIZE", "u16", 0, 65535),
    ("ECU_ADDRESS", "u32", 0, 4294967295),
    ("BIT_MASK", "u64", 0, 18446744073709551615),
    ("ECU_ADDRESS_EXTENSION", "i16", -32768, 32767),
    ("SYMBOL_LINK \"sym\"", "i32", -2147483648, 2147483647),
];

pub fn run(args: &Args) -> Report {
    let mut rep = Report::new(
        "C02",
        "include-free documents from the grammar (all element kinds, hex / decimal / exponent / boundary numbers, strings with every escape notation and Unicode, comments in block-level and other positions, 3 layouts, CRLF) plus uninterpreted IF_DATA payloads (integers of any width in decimal and hex, floats, strings, identifiers, nested blocks); literals at and beyond the limits of each integer width (u16, u32, u64, i16, i32 fields x decimal / hex x min-1, min, max, max+1, 2^bits, 2^64). non-trivial = accepted document with >= 20 tokens or a limit literal; distinct = distinct texts",
    );
    let g = match Grammar::load() {
        Ok(g) => g,
        Err(e) => {
            rep.fail("infrastructure", String::new(), e);
            return rep;
        }
    };
    let mut rng = Rng::new(args.seed);
    let mut texts: Vec<(String, &'static str)> = vec![];
    if let Some(input) = &args.replay {
        texts.push((String::from_utf8_lossy(&unhex(input.split_whitespace().next().unwrap_or("-"))).into_owned(), "replay"));
    } else {
        let n = if args.thorough { 30000 } else { 1500 };
        for i in 0..n {
            let toks = gen_document(&g, &mut rng, GenOpts { opt_prob: [15, 35, 60][i % 3], version: [6u8, 6, 5, 3][i % 4], deprecated: i % 5 == 0, specials: i % 4 == 2, dup_names: i % 3 == 1, ..GenOpts::default() });
            let mut text = render(&toks, &mut rng, [Layout::Canonical, Layout::Wild, Layout::Dense][i % 3], i % 7 == 2);
            let mut fam = "document";
            if i % 4 == 1 {
                // uninterpreted IF_DATA in the first MODULE
                // fixed boundary literals, and random literals of every width so that every digit (the hex digits e / E
                // and the decimal point included) occurs at every magnitude
                let mut ints: Vec<String> = ["0", "1", "-1", "255", "0x10", "0xFFFF", "2147483647", "-2147483648", "2147483648", "4294967295", "4294967297", "0x1FFFFFFFF", "-9000000000", "18446744073709551615", "0xFFFFFFFFFFFFFFFF", "1e3", "2.5", "-0.125", "16777217", "9007199254740993", "-9223372036854775808", "0xFEDCBA9876543210", "0x8000000000000001", "0X1E00000000000001"].iter().map(|s| s.to_string()).collect();
                for _ in 0..6 {
                    let bits = 1 + rng.below(64);
                    let v = rng.next() >> (64 - bits);
                    ints.push(match rng.below(4) {
                        0 => format!("0x{v:x}"),
                        1 => format!("0x{v:X}"),
                        2 => format!("{v}"),
                        _ => format!("-{}", v >> 1),
                    });
                }
                let mut p = String::from("/begin IF_DATA VENDOR_X");
                for _ in 0..(1 + rng.below(6)) {
                    match rng.below(5) {
                        0 | 1 => p.push_str(&format!(" {}", ints[rng.below(ints.len())])),
                        2 => p.push_str(" \"text \\\" é\""),
                        3 => p.push_str(" SOME_IDENT"),
                        _ => p.push_str(&format!(" /begin INNER {} item /begin DEEP 1 /end DEEP /end INNER", ints[rng.below(ints.len())])),
                    }
                }
                p.push_str(" /end IF_DATA");
                if let Some(pos) = text.find("/end MODULE") {
                    text.insert_str(pos, &format!("{p}\n"));
                    fam = "with-ifdata";
                }
            }
            texts.push((text, fam));
        }
    }
    for (i, (text, fam)) in texts.iter().enumerate() {
        let input = hex(text.as_bytes());
        let mut lenient_ident = false;
        let file = match load(text, false) {
            Loaded::Ok(f, log) => {
                // non-strict reading of IF_DATA accepts an identifier where the applicable A2ML definition has a string (with
                // a diagnostic) and writes it back as a string
                lenient_ident = text.contains("A2ML") && log_text(&log).contains("UnexpectedTokenType");
                f
            }
            Loaded::Panic(p) => {
                rep.fail("panic", input, p);
                continue;
            }
            Loaded::Err(e) => {
                rep.case(text, false);
                rep.bump("rejected");
                if *fam == "document" && !e.starts_with("MalformedNumber") {
                    rep.fail("generator", input, format!("generated document rejected: {e}"));
                }
                continue;
            }
        };
        rep.case(text, text.split_whitespace().count() >= 20);
        rep.bump(fam);
        let w = file.write_to_string();
        let (Some((a, ca)), Some((b, cb))) = (sig_tokens(text), sig_tokens(&w)) else {
            rep.fail("retokenize", input, "written text does not tokenize".into());
            continue;
        };
        // A2ML `float` members are 32-bit: where the document has an A2ML block with such a member, numbers are
        // compared at f32 precision (the value is written with all digits of the f32)
        let (a, b) = if text.contains("A2ML") && text.contains("float") {
            let f = |v: Vec<Sig>| -> Vec<Sig> { v.into_iter().map(|t| match t { Sig::Num(x) => Sig::Num(((f64::from_bits(x) as f32) as f64).to_bits()), o => o }).collect() };
            (f(a), f(b))
        } else {
            (a, b)
        };
        let (a, b) = if lenient_ident {
            let f = |v: Vec<Sig>| -> Vec<Sig> { v.into_iter().map(|t| match t { Sig::Str(x) if !x.is_empty() && x.chars().all(|c| c.is_ascii_alphanumeric() || c == '_' || c == '.' || c == '[' || c == ']') => Sig::Ident(x), o => o }).collect() };
            (f(a), f(b))
        } else {
            (a, b)
        };
        if a != b {
            // the documented reordering of position-restricted items: same multiset
            let (mut sa, mut sb) = (a.clone(), b.clone());
            sa.sort();
            sb.sort();
            if sa == sb && text.contains("RECORD_LAYOUT") {
                rep.bump("reordered-position-restricted");
            } else {
                let k = (0..a.len().min(b.len())).find(|&k| a[k] != b[k]).unwrap_or(a.len().min(b.len()));
                let kind = if matches!((a.get(k), b.get(k)), (Some(Sig::Num(_) | Sig::Big(_) | Sig::BadNum(_)), Some(Sig::Num(_) | Sig::Big(_) | Sig::BadNum(_)))) { if text.contains("IF_DATA") { "ifdata-number-changed" } else { "number-changed" } } else { "tokens-differ" };
                // what the two multisets do not share (helps to tell a reordering from a changed value)
                let mut only_in: Vec<String> = vec![];
                let (mut i, mut j) = (0, 0);
                while (i < sa.len() || j < sb.len()) && only_in.len() < 6 {
                    if j >= sb.len() || (i < sa.len() && sa[i] < sb[j]) {
                        only_in.push(format!("input only: {:?}", sa[i]));
                        i += 1;
                    } else if i >= sa.len() || sb[j] < sa[i] {
                        only_in.push(format!("output only: {:?}", sb[j]));
                        j += 1;
                    } else {
                        i += 1;
                        j += 1;
                    }
                }
                rep.fail(kind, input.clone(), format!("significant token #{k}: input {:?}, output {:?} ({} vs {} tokens); {}", a.get(k), b.get(k), a.len(), b.len(), only_in.join("; ")));
            }
        }
        // uninterpreted IF_DATA keeps integers of up to 64 bits exactly (the generic comparison above looks at f64 values)
        if *fam == "with-ifdata" {
            // per number token: Some(value) for an integer literal, None for a literal in float notation
            let nums = |s: &str| -> Option<Vec<Option<i128>>> {
                let a = s.find("/begin IF_DATA VENDOR_X")?;
                let b = a + s[a..].find("/end IF_DATA")?;
                Some(
                    s[a..b]
                        .split_whitespace()
                        .filter_map(|t| {
                            if t.len() > 2 && (t.starts_with("0x") || t.starts_with("0X")) {
                                u128::from_str_radix(&t[2..], 16).ok().map(|v| Some(v as i128))
                            } else if let Ok(v) = t.parse::<i128>() {
                                Some(Some(v))
                            } else if t.parse::<f64>().is_ok() {
                                Some(None)
                            } else {
                                None
                            }
                        })
                        .collect(),
                )
            };
            if let (Some(x), Some(y)) = (nums(text), nums(&w)) {
                if x.len() == y.len() {
                    for k in 0..x.len() {
                        if let Some(v) = x[k] {
                            if v >= i64::MIN as i128 && v <= u64::MAX as i128 && y[k] != Some(v) {
                                rep.fail("ifdata-number-changed", input.clone(), format!("number #{k} of the uninterpreted IF_DATA content: input {v}, output {:?}", y[k]));
                                break;
                            }
                        }
                    }
                }
            }
        }
        // comments between block-level elements are kept (as a multiset: sorting may move them with their element)
        let (mut x, mut y) = (ca.clone(), cb.clone());
        x.sort();
        y.sort();
        if x != y && !text.contains("IF_DATA") {
            rep.fail("comment-lost", input.clone(), format!("block-level comments in {x:?}, out {y:?}"));
        }
        if i % 401 == 0 {
            rep.sample(text.chars().take(200).collect());
        }
        if i % 6 == 0 {
            if let Some((req, ans)) = tie_case(text, false) {
                rep.tie(req, ans);
            }
        }
    }
    // --- literals at and beyond every width limit
    if args.replay.is_none() {
        for (kw, ty, min, max) in INT_FIELDS {
            let bits: u32 = ty[1..].parse().unwrap();
            let mut lits: Vec<(String, Option<i128>)> = vec![];
            for v in [min - 1, min, min + 1, -1, 0, 1, max - 1, max, max + 1, 1i128 << bits, (1i128 << bits) + 1, 1i128 << 64, (1i128 << 64) + 5] {
                lits.push((format!("{v}"), if v >= min && v <= max { Some(v) } else { None }));
                if v >= 0 {
                    // hex: the magnitude must fit the width; for signed fields the value is its two's complement
                    let fits = v < (1i128 << bits);
                    let val = if fits { Some(if min < 0 && v >= (1i128 << (bits - 1)) { v - (1i128 << bits) } else { v }) } else { None };
                    lits.push((format!("0x{v:X}"), val));
                    lits.push((format!("0x{v:x}"), val));
                }
            }
            for (lit, want) in lits {
                let text = format!("ASAP2_VERSION 1 71 /begin PROJECT p \"\" /begin MODULE m \"\" /begin MEASUREMENT x \"\" UBYTE NO_COMPU_METHOD 0 0 0 1 {kw} {lit} /end MEASUREMENT /end MODULE /end PROJECT");
                rep.case(&text, true);
                rep.bump(&format!("limit:{ty}"));
                let input = hex(text.as_bytes());
                for strict in [false, true] {
                    match load(&text, strict) {
                        Loaded::Panic(p) => rep.fail("panic", input.clone(), p),
                        Loaded::Err(e) => {
                            if want.is_some() {
                                rep.fail("limit-rejected", input.clone(), format!("{kw} {lit} ({ty}) is in range but rejected: {e}"));
                            } else if !e.starts_with("MalformedNumber") {
                                rep.fail("limit-class", input.clone(), format!("{kw} {lit} ({ty}) is out of range, expected MalformedNumber, got {e}"));
                            }
                        }
                        Loaded::Ok(f, log) => {
                            let w = f.write_to_string();
                            match want {
                                None => {
                                    if log.is_empty() {
                                        rep.fail("limit-silent", input.clone(), format!("{kw} {lit} does not fit {ty} but was accepted without diagnostic; written back as: {}", w.split(kw.split(' ').next().unwrap()).nth(1).unwrap_or("").split_whitespace().take(2).collect::<Vec<_>>().join(" ")));
                                    }
                                }
                                Some(_) => {
                                    // value intact: the literal re-appears with the same value
                                    // exact value: the token behind the keyword (and its string argument, if any)
                                    let exact = |t: &str| -> Option<i128> {
                                        let toks: Vec<&str> = t.split_whitespace().collect();
                                        let k = toks.iter().position(|x| *x == kw.split(' ').next().unwrap())?;
                                        let lit = toks.get(k + kw.split(' ').count())?;
                                        if lit.len() > 2 && (lit.starts_with("0x") || lit.starts_with("0X")) { u128::from_str_radix(&lit[2..], 16).ok().map(|v| v as i128) } else { lit.parse::<i128>().ok() }
                                    };
                                    if exact(&text) != exact(&w) || exact(&w).is_none() {
                                        rep.fail("limit-changed", input.clone(), format!("{kw} {lit} ({ty}) was changed by load+write: {:?} -> {:?}", exact(&text), exact(&w)));
                                    }
                                }
                            }
                        }
                    }
                }
                if let Some((req, ans)) = tie_case(&text, false) {
                    rep.tie(req, ans);
                }
            }
        }
    }
    rep
}
