//! lexical-level input generators shared by C03 / C01 / C06: token soups, byte noise, mutations
use crate::common::*;

pub const LEX_ALPHABET: [&str; 44] = [
    "/begin", "/end", "/include", "A2ML", "IF_DATA", "\"", "/*", "*/", "//", "\n", "\r\n", " ", "\t", "0", "1", "-1", "0x", "0x1F", "1.5e3", "1e999", "-", ".",
    "abc", "a.b[3]", "_x", "9abc", "\"str\"", "\"a\\\"b\"", "\"a\"\"b\"", "\\", "/", "*", "MODULE", "PROJECT", "ASAP2_VERSION", "x y", "é", "😀", "\"\"", "/begin A2ML", "/end A2ML",
    "/begin IF_DATA", "/end IF_DATA", "1 71",
];

pub fn token_soup(rng: &mut Rng, max_len: usize) -> String {
    let n = rng.below(max_len + 1);
    let mut s = String::new();
    for _ in 0..n {
        s.push_str(LEX_ALPHABET[rng.below(LEX_ALPHABET.len())]);
        match rng.below(6) {
            0 => {}
            1 => s.push('\n'),
            _ => s.push(' '),
        }
    }
    s
}

pub fn byte_noise(rng: &mut Rng, max_len: usize) -> String {
    let n = rng.below(max_len + 1);
    let bytes: Vec<u8> = (0..n)
        .map(|_| match rng.below(4) {
            0 => {
                let a = b" \n\t\"/*\\-.0x19azAZ_[]";
                a[rng.below(a.len())]
            }
            1 => rng.below(128) as u8,
            _ => {
                let a = b"/begin /end A2ML \"/*";
                a[rng.below(a.len())]
            }
        })
        .collect();
    String::from_utf8_lossy(&bytes).into_owned()
}

/// all prefixes of a text that end on a char boundary (every truncation point)
pub fn prefixes(text: &str, step: usize) -> Vec<String> {
    (0..=text.len()).step_by(step.max(1)).filter(|i| text.is_char_boundary(*i)).map(|i| text[..i].to_string()).collect()
}

/// single-token mutations of a text: delete / duplicate / swap neighbouring whitespace-separated tokens
pub fn token_mutations(text: &str, rng: &mut Rng, count: usize) -> Vec<String> {
    let toks: Vec<&str> = text.split_inclusive(char::is_whitespace).collect();
    let mut out = vec![];
    if toks.len() < 2 {
        return out;
    }
    for _ in 0..count {
        let i = rng.below(toks.len() - 1);
        let mut t: Vec<&str> = toks.clone();
        match rng.below(4) {
            0 => {
                t.remove(i);
            }
            1 => t.insert(i, toks[i]),
            2 => t.swap(i, i + 1),
            _ => {
                let alt = LEX_ALPHABET[rng.below(LEX_ALPHABET.len())];
                t[i] = alt;
                out.push(t.concat());
                continue;
            }
        }
        out.push(t.concat());
    }
    out
}
