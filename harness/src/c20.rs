//! C20: transcripts of the crate on valid and faulty documents in both modes. The same transcript is produced by
//! (1) this harness linked against the shipped `specification.rs` and compared with the Lean model instantiated with
//! the regenerated table, and (2) in the thorough tier a second build of this harness linked against a copy of the
//! crate whose specification module is the macro invocation in `specification_orig.rs` (compared line by line).
use crate::common::*;
use crate::docgen::*;
use crate::tree::*;

/// token range of one randomly chosen child element (block or keyword, below PROJECT level or PROJECT's own children)
fn pick_element(toks: &[GTok], rng: &mut Rng) -> Option<(usize, usize)> {
    let cand: Vec<usize> = (0..toks.len())
        .filter(|&i| toks[i].role == Role::Tag && !toks[i].elem.is_empty() && toks[i].depth >= 1 && !(i > 0 && toks[i - 1].role == Role::End))
        .collect();
    if cand.is_empty() {
        return None;
    }
    let i = cand[rng.below(cand.len())];
    let d = toks[i].depth;
    if i > 0 && toks[i - 1].role == Role::Begin {
        let j = (i + 1..toks.len()).find(|&j| toks[j].role == Role::End && toks[j].depth == d)?;
        Some((i - 1, (j + 2).min(toks.len())))
    } else {
        let mut j = i + 1;
        while j < toks.len() && toks[j].role == Role::Param && toks[j].depth == d {
            j += 1;
        }
        Some((i, j))
    }
}

pub fn run(args: &Args) -> Report {
    let mut rep = Report::new(
        "C20",
        "documents from the grammar (all versions, 3 layouts), their single-token mutations, truncations and structural deviations (one child element removed / doubled, PROJECT without MODULE), strict and non-strict: transcript = status, diagnostics with lines, written text. non-trivial = input with >= 10 tokens; distinct = distinct (text, mode)",
    );
    let g = match Grammar::load() {
        Ok(g) => g,
        Err(e) => {
            rep.fail("infrastructure", String::new(), e);
            return rep;
        }
    };
    // documents are generated from the table of the shipped code and, every second one, from the table of the fresh
    // expansion (identical while C20 holds)
    let gf = Grammar::load_path("work/translate/grammar_fresh.txt").ok();
    let mut rng = Rng::new(args.seed);
    let ndocs = if args.thorough { 3000 } else { 250 };
    let mut texts: Vec<String> = vec![];
    if let Some(input) = &args.replay {
        texts.push(String::from_utf8_lossy(&unhex(input.split_whitespace().last().unwrap_or("-"))).into_owned());
    } else {
        for d in 0..ndocs {
            let gd = match (&gf, d % 2) {
                (Some(x), 1) => x,
                _ => &g,
            };
            let toks = gen_document(gd, &mut rng, GenOpts { version: [6u8, 6, 5, 3, 1][d % 5], deprecated: d % 2 == 0, opt_prob: [20, 50][d % 2], specials: d % 4 == 1, ..GenOpts::default() });
            let text = render(&toks, &mut rng, [Layout::Canonical, Layout::Wild, Layout::Dense][d % 3], d % 11 == 0);
            if d % 3 == 0 {
                for m in crate::soup::token_mutations(&text, &mut rng, 4) {
                    texts.push(m);
                }
                let step = (text.len() / 5).max(1);
                for p in crate::soup::prefixes(&text, step) {
                    texts.push(p);
                }
            }
            if d % 3 == 1 {
                // structural deviations: one whole child element removed (a required one: multiplicity diagnostics, e.g. a
                // PROJECT without MODULE) or doubled (a single one: too-many diagnostics)
                for k in 0..4 {
                    if let Some((a, b)) = pick_element(&toks, &mut rng) {
                        let mut t2 = toks.clone();
                        if k % 2 == 0 {
                            t2.drain(a..b);
                        } else {
                            let part: Vec<GTok> = toks[a..b].to_vec();
                            t2.splice(b..b, part);
                        }
                        texts.push(render(&t2, &mut rng, Layout::Canonical, false));
                    }
                }
            }
            texts.push(text);
        }
        // the smallest documents of that kind, fixed
        for v in ["1 71", "1 60"] {
            texts.push(format!("ASAP2_VERSION {v}\n/begin PROJECT p \"\"\n/end PROJECT\n"));
            texts.push(format!("ASAP2_VERSION {v}\n/begin PROJECT p \"\"\n/begin HEADER \"\" /end HEADER\n/begin HEADER \"\" /end HEADER\n/begin MODULE m \"\" /end MODULE\n/end PROJECT\n"));
        }
    }
    for (i, text) in texts.iter().enumerate() {
        for strict in [true, false] {
            rep.case(&(text, strict), text.split_whitespace().count() >= 10);
            match load(text, strict) {
                Loaded::Panic(p) => rep.fail("panic", format!("{} {}", u8::from(strict), hex(text.as_bytes())), p),
                Loaded::Ok(..) => rep.bump("outcome:ok"),
                Loaded::Err(_) => rep.bump("outcome:err"),
            }
            if let Some((req, ans)) = tie_case(text, strict) {
                // the same request for the model instantiated with the table of the fresh expansion
                if let Some(rest) = req.strip_prefix("a2l ") {
                    rep.tie(format!("a2lfresh {rest}"), ans.clone());
                }
                rep.tie(req, ans);
            }
        }
        if i % 331 == 0 {
            rep.sample(text.chars().take(160).collect());
        }
    }
    rep
}
