//! reference graph of A2L modules: site table (which identifier field refers to which namespace), a grammar-driven
//! reader of written text into a generic element tree, graph extraction, and a generator of consistent modules in which
//! every reference site of the grammar is populated.
use crate::common::*;
use crate::docgen::*;
use std::collections::{BTreeMap, HashMap, HashSet};

#[derive(Clone, Copy, Debug, PartialEq, Eq, Hash, PartialOrd, Ord)]
pub enum Ns {
    Object,      // AXIS_PTS, BLOB, CHARACTERISTIC, INSTANCE, MEASUREMENT
    CompuMethod,
    CompuTab,    // COMPU_TAB, COMPU_VTAB, COMPU_VTAB_RANGE
    RecordLayout,
    Function,
    Group,
    Typedef,     // TYPEDEF_*
    Unit,
    MemorySegment,
    Transformer,
    Frame,
    Criterion,   // VAR_CRITERION (inside VARIANT_CODING)
}

#[derive(Clone, Copy, Debug, PartialEq, Eq)]
pub enum Site {
    Def(Ns),
    Ref(Ns),
    /// not a module-level reference (local names, free text identifiers)
    No,
}

/// classification of every identifier-typed field of the grammar; an unlisted field is an error (a grammar change)
pub fn site_of(key: &str) -> Option<Site> {
    use Ns::*;
    use Site::*;
    Some(match key {
        "AxisPts.name" | "Blob.name" | "Characteristic.name" | "Instance.name" | "Measurement.name" => Def(Object),
        "CompuMethod.name" => Def(CompuMethod),
        "CompuTab.name" | "CompuVtab.name" | "CompuVtabRange.name" => Def(CompuTab),
        "RecordLayout.name" => Def(RecordLayout),
        "Function.name" => Def(Function),
        "Group.name" => Def(Group),
        "TypedefAxis.name" | "TypedefBlob.name" | "TypedefCharacteristic.name" | "TypedefMeasurement.name" | "TypedefStructure.name" => Def(Typedef),
        "Unit.name" => Def(Unit),
        "MemorySegment.name" => Def(MemorySegment),
        "Transformer.name" => Def(Transformer),
        "Frame.name" => Def(Frame),
        "VarCriterion.name" => Def(Criterion),
        "Module.name" | "Project.name" | "ArPrototypeOf.name" | "DisplayIdentifier.display_name" | "ProjectNo.project_number" | "StructureComponent.name"
        | "UserRights.user_level_id" | "VarCriterion.value_list" | "Overwrite.name" | "CombinationStruct.criterion_value" => No,
        "AxisDescr.input_quantity" | "AxisPts.input_quantity" | "TypedefAxis.input_quantity" | "AxisPtsRef.axis_points" | "CurveAxisRef.curve_axis"
        | "ComparisonQuantity.name" | "DefCharacteristic.identifier_list" | "DependentCharacteristic.characteristic_list" | "FrameMeasurement.identifier_list"
        | "InMeasurement.identifier_list" | "LocMeasurement.identifier_list" | "OutMeasurement.identifier_list" | "InputQuantity.name" | "MapList.name_list"
        | "RefCharacteristic.identifier_list" | "RefMeasurement.identifier_list" | "TransformerInObjects.identifier_list" | "TransformerOutObjects.identifier_list"
        | "VarCharacteristic.name" | "VarMeasurement.name" | "VarSelectionCharacteristic.name" | "Virtual.measuring_channel_list"
        | "VirtualCharacteristic.characteristic_list" => Ref(Object),
        "AxisDescr.conversion" | "AxisPts.conversion" | "Characteristic.conversion" | "Measurement.conversion" | "TypedefAxis.conversion"
        | "TypedefCharacteristic.conversion" | "TypedefMeasurement.conversion" | "Conversion.name" => Ref(CompuMethod),
        "CompuTabRef.conversion_table" | "StatusStringRef.conversion_table" => Ref(CompuTab),
        "AxisPts.deposit_record" | "Characteristic.deposit" | "TypedefAxis.record_layout" | "TypedefCharacteristic.record_layout" | "SRecLayout.name" => Ref(RecordLayout),
        "FunctionList.name_list" | "SubFunction.identifier_list" => Ref(Function),
        "SubGroup.identifier_list" | "RefGroup.identifier_list" => Ref(Group),
        "Instance.type_ref" | "StructureComponent.component_type" => Ref(Typedef),
        "RefUnit.unit" => Ref(Unit),
        "RefMemorySegment.name" => Ref(MemorySegment),
        "Transformer.inverse_transformer" => Ref(Transformer),
        "VarCharacteristic.criterion_name_list" | "CombinationStruct.criterion_name" => Ref(Criterion),
        _ => return None,
    })
}

/// names that stand for "no reference" at a site
pub fn is_convention(site: &str, name: &str) -> bool {
    (name == "NO_COMPU_METHOD" && site.ends_with("conversion"))
        || (name == "NO_INPUT_QUANTITY" && site.ends_with("input_quantity"))
        || (name == "NO_INVERSE_TRANSFORMER" && site == "Transformer.inverse_transformer")
        || (name.starts_with("THIS.") && (site == "AxisPtsRef.axis_points" || site == "CurveAxisRef.curve_axis"))
}

// ---------------------------------------------------------------------------------------------------------------
// generic element tree read back from written text

#[derive(Clone, Debug, PartialEq)]
pub struct Elem {
    pub tag: String,
    pub ty: String,
    /// parameter tokens in order: (site key "Type.field", token text)
    pub params: Vec<(String, String)>,
    pub children: Vec<Elem>,
}

struct Reader<'a> {
    g: &'a Grammar,
    toks: Vec<(u8, String)>,
    pos: usize,
}

impl<'a> Reader<'a> {
    fn peek(&self) -> Option<&(u8, String)> {
        self.toks.get(self.pos)
    }
    fn item(&mut self, ty: &str, field: &str, it: &Item, out: &mut Vec<(String, String)>) -> Option<()> {
        match it {
            Item::Seq(of, stop) => loop {
                let Some((k, text)) = self.peek().cloned() else { return Some(()) };
                // a list ends at /begin, /end, or (identifier lists) at a stop word / known tag of the parent
                if k == 1 || k == 2 {
                    return Some(());
                }
                let starts_ok = match **of {
                    Item::Ident | Item::Enum(_) => k == 0,
                    Item::Str | Item::StrMax(_) => k == 4,
                    Item::Struct(_) | Item::Arr(..) | Item::Seq(..) => true,
                    _ => k == 5,
                };
                if !starts_ok || (k == 0 && stop.contains(&text)) {
                    return Some(());
                }
                let save = self.pos;
                let mut tmp = vec![];
                if self.item(ty, field, of, &mut tmp).is_none() {
                    self.pos = save;
                    return Some(());
                }
                out.extend(tmp);
            },
            Item::Arr(of, n) => {
                for _ in 0..*n {
                    self.item(ty, field, of, out)?;
                }
                Some(())
            }
            Item::Struct(st) => {
                let TyDef::Block { items, .. } = self.g.types.get(st)?.clone() else { return None };
                let fl = self.g.fields.get(st).cloned().unwrap_or_default();
                for (k, i) in items.iter().enumerate() {
                    self.item(st, fl.get(k).map_or("", |x| x.as_str()), i, out)?;
                }
                Some(())
            }
            _ => {
                let (k, text) = self.peek()?.clone();
                if k == 1 || k == 2 {
                    return None;
                }
                self.pos += 1;
                // only identifier-typed parameters are reference sites
                out.push((if matches!(it, Item::Ident) { format!("{ty}.{field}") } else { String::new() }, text));
                Some(())
            }
        }
    }
    /// body of an element after its tag
    fn body(&mut self, tag: &str, ty: &str, is_block: bool) -> Option<Elem> {
        let mut e = Elem { tag: tag.to_string(), ty: ty.to_string(), params: vec![], children: vec![] };
        let def = self.g.types.get(ty)?.clone();
        match def {
            TyDef::Special => {
                // skip balanced content
                let mut depth = 0i32;
                while let Some((k, _)) = self.peek().cloned() {
                    if k == 1 {
                        depth += 1;
                    }
                    if k == 2 {
                        if depth == 0 {
                            break;
                        }
                        depth -= 1;
                        self.pos += 1; // /end
                    }
                    self.pos += 1;
                }
            }
            TyDef::Block { items, arms, .. } => {
                let fl = self.g.fields.get(ty).cloned().unwrap_or_default();
                for (k, it) in items.iter().enumerate() {
                    let mut ps = vec![];
                    self.item(ty, fl.get(k).map_or("", |x| x.as_str()), it, &mut ps)?;
                    e.params.extend(ps);
                }
                loop {
                    let Some((k, text)) = self.peek().cloned() else { break };
                    if k == 6 {
                        self.pos += 1;
                        continue;
                    }
                    if k == 1 {
                        let tg = self.toks.get(self.pos + 1)?.1.clone();
                        // a tag that is not ours belongs to an enclosing element
                        let Some(arm) = arms.iter().find(|a| a.tag == tg).cloned() else { break };
                        self.pos += 2;
                        let c = self.body(&tg, &arm.ty, true)?;
                        e.children.push(c);
                    } else if k == 0 {
                        let Some(arm) = arms.iter().find(|a| a.tag == text).cloned() else { break };
                        self.pos += 1;
                        let c = self.body(&text, &arm.ty, false)?;
                        e.children.push(c);
                    } else {
                        break;
                    }
                }
            }
            TyDef::Enum(_) => return None,
        }
        if is_block {
            // /end TAG
            if self.peek()?.0 != 2 {
                return None;
            }
            self.pos += 2;
        }
        Some(e)
    }
}

/// read written A2L text back into element trees: the MODULE elements of the file
pub fn read_modules(g: &Grammar, text: &str) -> Option<Vec<Elem>> {
    let dump = a2lfile::verif_hooks::tokenize_dump(text).ok()?;
    let toks: Vec<(u8, String)> = dump.iter().map(|t| (t.0, text[t.1..t.2].to_string())).collect();
    let mut r = Reader { g, toks, pos: 0 };
    let file = r.body("A2L_FILE", "A2lFile", false)?;
    let project = file.children.iter().find(|c| c.tag == "PROJECT")?;
    Some(project.children.iter().filter(|c| c.tag == "MODULE").cloned().collect())
}

#[derive(Clone, Debug, PartialEq, Eq, PartialOrd, Ord, Hash)]
pub struct RefEdge {
    /// top-level owner: (tag, name) of the MODULE child that holds the reference
    pub owner: (String, String),
    pub site: String,
    pub target: String,
}

#[derive(Clone, Debug, Default)]
pub struct Graph {
    /// definitions: namespace -> name -> (tag, canonical text of the element without its name)
    pub defs: BTreeMap<Ns, BTreeMap<String, (String, String)>>,
    pub dup_names: Vec<(Ns, String)>,
    pub refs: Vec<(Ns, RefEdge)>,
    /// MODULE children in written order: (tag, name)
    pub order: Vec<(String, String)>,
}

/// the crate's `PartialEq` does not see the notation of an integer (the hex flag is layout): hexadecimal literals are
/// compared by value
fn norm_param(v: &str) -> String {
    if v.len() > 2 && (v.starts_with("0x") || v.starts_with("0X")) {
        if let Ok(n) = u64::from_str_radix(&v[2..], 16) {
            return n.to_string();
        }
    }
    v.to_string()
}

fn canon(e: &Elem, skip_name: bool, out: &mut String) {
    out.push_str(&e.tag);
    for (i, (site, v)) in e.params.iter().enumerate() {
        if skip_name && i == 0 && matches!(site_of(site), Some(Site::Def(_))) {
            out.push_str(" <name>");
        } else {
            out.push(' ');
            out.push_str(&norm_param(v));
        }
    }
    let mut cs: Vec<String> = e
        .children
        .iter()
        .map(|c| {
            let mut s = String::new();
            canon(c, false, &mut s);
            s
        })
        .collect();
    cs.sort();
    for c in cs {
        out.push_str(" {");
        out.push_str(&c);
        out.push('}');
    }
}

pub fn graph_of(module: &Elem) -> Result<Graph, String> {
    let mut g = Graph::default();
    fn walk(e: &Elem, owner: &(String, String), g: &mut Graph) -> Result<(), String> {
        for (site, v) in &e.params {
            if site.is_empty() {
                continue;
            }
            match site_of(site) {
                None => return Err(format!("unclassified identifier site {site}")),
                Some(Site::Ref(ns)) => {
                    if !is_convention(site, v) {
                        g.refs.push((ns, RefEdge { owner: owner.clone(), site: site.clone(), target: v.clone() }));
                    }
                }
                Some(Site::Def(ns)) if ns == Ns::MemorySegment || ns == Ns::Criterion => {
                    let mut c = String::new();
                    canon(e, true, &mut c);
                    if g.defs.entry(ns).or_default().insert(v.clone(), (e.tag.clone(), c)).is_some() {
                        g.dup_names.push((ns, v.clone()));
                    }
                }
                _ => {}
            }
        }
        for c in &e.children {
            walk(c, owner, g)?;
        }
        Ok(())
    }
    for child in &module.children {
        let name = child.params.first().map(|p| p.1.clone()).unwrap_or_default();
        let first_site = child.params.first().map(|p| p.0.clone()).unwrap_or_default();
        let owner = match site_of(&first_site) {
            Some(Site::Def(ns)) => {
                let mut c = String::new();
                canon(child, true, &mut c);
                if g.defs.entry(ns).or_default().insert(name.clone(), (child.tag.clone(), c)).is_some() {
                    g.dup_names.push((ns, name.clone()));
                }
                (child.tag.clone(), name.clone())
            }
            _ => (child.tag.clone(), String::new()),
        };
        g.order.push(owner.clone());
        walk(child, &owner, &mut g)?;
    }
    Ok(g)
}

impl Graph {
    pub fn dangling(&self) -> Vec<(Ns, RefEdge)> {
        self.refs.iter().filter(|(ns, r)| !self.defs.get(ns).map_or(false, |d| d.contains_key(&r.target))).cloned().collect()
    }
}

// ---------------------------------------------------------------------------------------------------------------
// generator of consistent modules

/// token lists of the children of one MODULE; every identifier token carries its site in `elem`
pub struct GenModule {
    pub children: Vec<Vec<GTok>>,
}

const MODULE_KINDS: [(&str, &str); 20] = [
    ("UNIT", "Unit"), ("COMPU_TAB", "CompuTab"), ("COMPU_VTAB", "CompuVtab"), ("COMPU_VTAB_RANGE", "CompuVtabRange"), ("COMPU_METHOD", "CompuMethod"),
    ("RECORD_LAYOUT", "RecordLayout"), ("MEASUREMENT", "Measurement"), ("CHARACTERISTIC", "Characteristic"), ("AXIS_PTS", "AxisPts"), ("BLOB", "Blob"),
    ("TYPEDEF_MEASUREMENT", "TypedefMeasurement"), ("TYPEDEF_CHARACTERISTIC", "TypedefCharacteristic"), ("TYPEDEF_AXIS", "TypedefAxis"), ("TYPEDEF_BLOB", "TypedefBlob"),
    ("TYPEDEF_STRUCTURE", "TypedefStructure"), ("INSTANCE", "Instance"), ("FUNCTION", "Function"), ("GROUP", "Group"), ("FRAME", "Frame"), ("TRANSFORMER", "Transformer"),
];

pub fn gen_module(g: &Grammar, rng: &mut Rng, prefix: &str, per_kind: usize, opt_prob: u32, with_singletons: bool) -> GenModule {
    let mut children = vec![];
    let mut gen_one = |tag: &str, ty: &str, rng: &mut Rng| -> Vec<GTok> {
        let mut dg = DocGen::new(g, rng, GenOpts { opt_prob, max_repeat: 2, comments: false, unicode: false, deprecated: true, ..GenOpts::default() });
        dg.ascending_positions = true;
        dg.gen_element(tag, ty, true, 2);
        dg.out
    };
    for (tag, ty) in MODULE_KINDS {
        let n = 1 + rng.below(per_kind.max(1));
        for _ in 0..n {
            children.push(gen_one(tag, ty, rng));
        }
    }
    if with_singletons {
        // MOD_PAR with at least one MEMORY_SEGMENT and VARIANT_CODING with at least one VAR_CRITERION, so that every
        // namespace has a definition to refer to
        let has_def = |c: &Vec<GTok>, ns: Ns| c.iter().any(|t| t.role == Role::Param && site_of(&t.elem) == Some(Site::Def(ns)));
        let mut mp = gen_one("MOD_PAR", "ModPar", rng);
        for _ in 0..200 {
            if has_def(&mp, Ns::MemorySegment) {
                break;
            }
            mp = gen_one("MOD_PAR", "ModPar", rng);
        }
        children.push(mp);
        children.push(gen_one("MOD_COMMON", "ModCommon", rng));
        let mut vc = gen_one("VARIANT_CODING", "VariantCoding", rng);
        for _ in 0..200 {
            if has_def(&vc, Ns::Criterion) {
                break;
            }
            vc = gen_one("VARIANT_CODING", "VariantCoding", rng);
        }
        children.push(vc);
        for _ in 0..rng.below(3) {
            children.push(gen_one("USER_RIGHTS", "UserRights", rng));
        }
    }
    // unique definition names with the module's prefix
    let mut n = 0;
    for c in children.iter_mut() {
        for t in c.iter_mut() {
            if t.role == Role::Param && matches!(site_of(&t.elem), Some(Site::Def(_)) | Some(Site::No)) && !t.elem.is_empty() {
                n += 1;
                t.text = format!("{prefix}{}{n}", ["n", "sig.x", "Q_", "v[1]."][n % 4]);
            }
        }
    }
    GenModule { children }
}

impl GenModule {
    pub fn def_pool(&self) -> HashMap<Ns, Vec<String>> {
        let mut pool: HashMap<Ns, Vec<String>> = HashMap::new();
        for c in &self.children {
            for t in c {
                if t.role == Role::Param {
                    if let Some(Site::Def(ns)) = site_of(&t.elem) {
                        pool.entry(ns).or_default().push(t.text.clone());
                    }
                }
            }
        }
        pool
    }
    /// point every reference at an existing definition of its namespace (conventions sometimes); `dangle`: leave the
    /// generated fresh (non-existing) name with that probability (percent)
    pub fn resolve_refs(&mut self, rng: &mut Rng, dangle: u32) {
        let pool = self.def_pool();
        for c in self.children.iter_mut() {
            for t in c.iter_mut() {
                if t.role != Role::Param {
                    continue;
                }
                if let Some(Site::Ref(ns)) = site_of(&t.elem) {
                    if rng.chance(dangle, 100) {
                        t.text = format!("missing_{}", t.text.replace(['.', '[', ']'], "_"));
                        continue;
                    }
                    let conv = if t.elem.ends_with("conversion") {
                        Some("NO_COMPU_METHOD")
                    } else if t.elem.ends_with("input_quantity") {
                        Some("NO_INPUT_QUANTITY")
                    } else if t.elem == "Transformer.inverse_transformer" {
                        Some("NO_INVERSE_TRANSFORMER")
                    } else {
                        None
                    };
                    match (pool.get(&ns), conv) {
                        (_, Some(cv)) if rng.chance(1, 5) => t.text = cv.to_string(),
                        (Some(p), _) if !p.is_empty() => t.text = p[rng.below(p.len())].clone(),
                        (_, Some(cv)) => t.text = cv.to_string(),
                        _ => {}
                    }
                }
            }
        }
    }
    pub fn text(&self, name: &str, rng: &mut Rng) -> String {
        let mut toks: Vec<GTok> = vec![];
        let t = |s: &str, role: Role, d: usize| GTok { text: s.to_string(), role, depth: d, elem: String::new() };
        toks.push(t("ASAP2_VERSION", Role::Tag, 0));
        toks.push(t("1", Role::Param, 0));
        toks.push(t("71", Role::Param, 0));
        toks.push(t("/begin", Role::Begin, 0));
        toks.push(t("PROJECT", Role::Tag, 0));
        toks.push(t("prj", Role::Param, 0));
        toks.push(t("\"\"", Role::Param, 0));
        toks.push(t("/begin", Role::Begin, 1));
        toks.push(t("MODULE", Role::Tag, 1));
        toks.push(t(name, Role::Param, 1));
        toks.push(t("\"\"", Role::Param, 1));
        for c in &self.children {
            toks.extend(c.iter().cloned());
        }
        toks.push(t("/end", Role::End, 1));
        toks.push(t("MODULE", Role::Tag, 1));
        toks.push(t("/end", Role::End, 0));
        toks.push(t("PROJECT", Role::Tag, 0));
        render(&toks, rng, Layout::Canonical, false)
    }
    /// (tag, name) of each child
    pub fn child_ids(&self) -> Vec<(String, String)> {
        self.children
            .iter()
            .map(|c| {
                let tag = c.iter().find(|t| t.role == Role::Tag).map(|t| t.text.clone()).unwrap_or_default();
                let name = c.iter().find(|t| t.role == Role::Param && matches!(site_of(&t.elem), Some(Site::Def(_)))).map(|t| t.text.clone()).unwrap_or_default();
                (tag, name)
            })
            .collect()
    }
}

/// canonical text of an element with its own name and every reference masked: the part of the content that neither
/// merge nor cleanup can change
fn static_body(e: &Elem, top: bool, out: &mut String) {
    out.push_str(&e.tag);
    for (i, (site, v)) in e.params.iter().enumerate() {
        if !site.is_empty() {
            match site_of(site) {
                Some(Site::Def(_)) if top && i == 0 => {
                    out.push_str(" <name>");
                    continue;
                }
                Some(Site::Ref(_)) => {
                    out.push_str(" <ref>");
                    continue;
                }
                _ => {}
            }
        }
        out.push(' ');
        out.push_str(&norm_param(v));
    }
    for c in &e.children {
        out.push_str(" {");
        static_body(c, false, out);
        out.push('}');
    }
}

fn collect_refs(e: &Elem, out: &mut Vec<String>) {
    for (site, v) in &e.params {
        if !site.is_empty() {
            if let Some(Site::Ref(_)) = site_of(site) {
                if !is_convention(site, v) {
                    out.push(format!("{site}@{}", hex(v.as_bytes())));
                }
            }
        }
    }
    for c in &e.children {
        collect_refs(c, out);
    }
}

/// the module as a list of nodes for the Lean graph model: `TAG~hexname~bodyhash~site@hextarget;...` per MODULE child
/// (name empty for unnamed children), joined by `,`; `-` for an empty module
pub fn nodes_text(module: &Elem) -> String {
    let mut nodes = vec![];
    for c in &module.children {
        let first_site = c.params.first().map(|p| p.0.clone()).unwrap_or_default();
        let name = match site_of(&first_site) {
            Some(Site::Def(_)) => c.params[0].1.clone(),
            _ => String::new(),
        };
        let mut body = String::new();
        static_body(c, true, &mut body);
        let mut refs = vec![];
        collect_refs(c, &mut refs);
        nodes.push(format!("{}~{}~{:016x}~{}", c.tag, hex(name.as_bytes()), hash_of(&body), if refs.is_empty() { "-".to_string() } else { refs.join(";") }));
    }
    if nodes.is_empty() { "-".to_string() } else { nodes.join(",") }
}

/// like `nodes_text` without the body hash (cleanup may drop emptied list blocks, which changes the static body)
pub fn nodes_text_nohash(module: &Elem) -> String {
    let t = nodes_text(module);
    if t == "-" {
        return t;
    }
    t.split(',')
        .map(|n| {
            let p: Vec<&str> = n.split('~').collect();
            format!("{}~{}~{}", p[0], p[1], p[3])
        })
        .collect::<Vec<_>>()
        .join(",")
}

/// debugging aid: where does the reader stop?
pub fn read_modules_debug(g: &Grammar, text: &str) -> String {
    let dump = a2lfile::verif_hooks::tokenize_dump(text).unwrap();
    let toks: Vec<(u8, String)> = dump.iter().map(|t| (t.0, text[t.1..t.2].to_string())).collect();
    let mut r = Reader { g, toks, pos: 0 };
    let res = r.body("A2L_FILE", "A2lFile", false);
    format!("ok={} stopped at token {} of {}: {:?}", res.is_some(), r.pos, r.toks.len(), r.toks.iter().skip(r.pos.saturating_sub(6)).take(12).collect::<Vec<_>>())
}

pub fn unused_sites_check() -> HashSet<&'static str> {
    HashSet::new()
}
