//! C08 (merge conserves both inputs) and C09 (merge preserves the reference structure of the merged-in file).
//! Pairs (A, B) of generated consistent modules with controlled overlap: disjoint names, identical twins, same-name /
//! different-content conflicts in every namespace, pre-existing X.MERGE names; merge sequences; special pairs
//! (empty, self). The oracle reads the graphs of A, B and the result back from written text.
use crate::common::*;
use crate::docgen::*;
use crate::graph::*;
use std::collections::{BTreeMap, HashMap};

#[derive(Clone)]
struct NodeView {
    tag: String,
    name: String,
    ns: Option<Ns>,
    body: String, // hash of the static body (own name and references masked)
    refs: Vec<(String, String)>, // (site, target)
}

fn views(module: &Elem) -> Vec<NodeView> {
    let t = nodes_text(module);
    if t == "-" {
        return vec![];
    }
    t.split(',')
        .zip(module.children.iter())
        .map(|(n, c)| {
            let p: Vec<&str> = n.split('~').collect();
            let first_site = c.params.first().map(|x| x.0.clone()).unwrap_or_default();
            let ns = match site_of(&first_site) {
                Some(Site::Def(ns)) => Some(ns),
                _ => None,
            };
            let refs = if p[3] == "-" { vec![] } else { p[3].split(';').map(|r| { let (s, t) = r.split_once('@').unwrap(); (s.to_string(), String::from_utf8_lossy(&unhex(t)).into_owned()) }).collect() };
            NodeView { tag: p[0].to_string(), name: String::from_utf8_lossy(&unhex(p[1])).into_owned(), ns, body: p[2].to_string(), refs }
        })
        .collect()
}

fn site_ns(site: &str) -> Option<Ns> {
    match site_of(site) {
        Some(Site::Ref(ns)) => Some(ns),
        _ => None,
    }
}

/// B with controlled overlap with A
/// a module does not have to contain every kind of element: sometimes all children of one to three kinds are removed
/// (only kinds whose namespace is shared with other kinds or that nothing refers to, so the module stays consistent)
fn drop_kinds(m: &mut GenModule, rng: &mut Rng) {
    if !rng.chance(1, 2) {
        return;
    }
    const DROPPABLE: [&str; 14] = ["COMPU_TAB", "COMPU_VTAB", "COMPU_VTAB_RANGE", "MOD_COMMON", "FRAME", "USER_RIGHTS", "VARIANT_CODING", "TYPEDEF_AXIS", "TYPEDEF_BLOB", "TYPEDEF_MEASUREMENT", "AXIS_PTS", "BLOB", "INSTANCE", "TRANSFORMER"];
    for _ in 0..1 + rng.below(3) {
        let tag = DROPPABLE[rng.below(DROPPABLE.len())];
        m.children.retain(|c| c.iter().find(|t| t.role == Role::Tag).map_or(true, |t| t.text != tag));
    }
}

fn make_pair(g: &Grammar, rng: &mut Rng, overlap: u32, per_kind: usize) -> (GenModule, GenModule) {
    let mut a = gen_module(g, rng, "a", per_kind, 40, true);
    drop_kinds(&mut a, rng);
    a.resolve_refs(rng, 0);
    let mut b = gen_module(g, rng, "b", per_kind, 40, true);
    drop_kinds(&mut b, rng);
    let a_ids = a.child_ids();
    let a_pool = a.def_pool();
    let mut used_in_b: HashMap<Ns, Vec<String>> = b.def_pool();
    for bi in 0..b.children.len() {
        let tag = b.children[bi].iter().find(|t| t.role == Role::Tag).map(|t| t.text.clone()).unwrap_or_default();
        if !rng.chance(overlap, 100) {
            continue;
        }
        let name_idx = b.children[bi].iter().position(|t| t.role == Role::Param && matches!(site_of(&t.elem), Some(Site::Def(_))));
        let Some(name_idx) = name_idx else { continue };
        let Some(Site::Def(ns)) = site_of(&b.children[bi][name_idx].elem) else { continue };
        if ns == Ns::MemorySegment || ns == Ns::Criterion {
            continue;
        }
        match rng.below(4) {
            0 => {
                // identical twin: copy a reference-free element of the same tag from A
                let cands: Vec<usize> = (0..a.children.len()).filter(|&i| a_ids[i].0 == tag && !a.children[i].iter().any(|t| t.role == Role::Param && matches!(site_of(&t.elem), Some(Site::Ref(_))))).collect();
                if let Some(&ai) = cands.get(rng.below(cands.len().max(1))) {
                    let nm = a_ids[ai].1.clone();
                    if !used_in_b.get(&ns).map_or(false, |v| v.contains(&nm)) {
                        b.children[bi] = a.children[ai].clone();
                        used_in_b.entry(ns).or_default().push(nm);
                    }
                }
            }
            1 | 2 => {
                // conflict: same name as an element of A in the same namespace (possibly another kind), other content
                if let Some(pool) = a_pool.get(&ns) {
                    let nm = pool[rng.below(pool.len())].clone();
                    if !used_in_b.get(&ns).map_or(false, |v| v.contains(&nm)) {
                        b.children[bi][name_idx].text = nm.clone();
                        used_in_b.entry(ns).or_default().push(nm);
                    }
                }
            }
            _ => {
                // a name that collides with the fresh-name scheme: X.MERGE / X.MERGE2 for some X of A
                if let Some(pool) = a_pool.get(&ns) {
                    let nm = format!("{}.MERGE{}", pool[rng.below(pool.len())], ["", "2"][rng.below(2)]);
                    if !used_in_b.get(&ns).map_or(false, |v| v.contains(&nm)) {
                        b.children[bi][name_idx].text = nm.clone();
                        used_in_b.entry(ns).or_default().push(nm);
                    }
                }
            }
        }
    }
    b.resolve_refs(rng, 0);
    if overlap > 0 {
        let k = 1 + rng.below(3);
        add_shared_referrers(&a, &mut b, rng, k);
    }
    (a, b)
}

/// identical twins that hold references: an element of A (with its references) is copied into B, and for each of its
/// targets that B does not define yet an existing definition of B in that namespace is renamed to the target's name --
/// so B stays consistent, B's copy is textually identical to A's element, and what it refers to in B is a different
/// element than what A's refers to in A (a same-name conflict)
fn add_shared_referrers(a: &GenModule, b: &mut GenModule, rng: &mut Rng, count: usize) {
    let a_ids = a.child_ids();
    let a_pool = a.def_pool();
    for _ in 0..count {
        let cands: Vec<usize> = (0..a.children.len())
            .filter(|&i| {
                let c = &a.children[i];
                a_ids[i].0 != "FUNCTION"
                    && a_ids[i].0 != "GROUP"
                    && c.iter().any(|t| t.role == Role::Param && matches!(site_of(&t.elem), Some(Site::Def(ns)) if ns != Ns::MemorySegment && ns != Ns::Criterion))
                    && c.iter().any(|t| t.role == Role::Param && matches!(site_of(&t.elem), Some(Site::Ref(_))))
                    // (memory segments and variant criteria are not elements of the graph)
                    && !c.iter().any(|t| t.role == Role::Param && matches!(site_of(&t.elem), Some(Site::Ref(ns)) if ns == Ns::MemorySegment || ns == Ns::Criterion))
            })
            .collect();
        if cands.is_empty() {
            return;
        }
        let ai = cands[rng.below(cands.len())];
        let elem = a.children[ai].clone();
        let Some((dns, dname)) = elem.iter().find_map(|t| match (t.role == Role::Param, site_of(&t.elem)) {
            (true, Some(Site::Def(ns))) => Some((ns, t.text.clone())),
            _ => None,
        }) else { continue };
        let b_pool = b.def_pool();
        if b_pool.get(&dns).map_or(false, |v| v.contains(&dname)) {
            continue;
        }
        let mut ok = true;
        let mut renames: Vec<(Ns, String, String)> = vec![];
        for t in elem.iter().filter(|t| t.role == Role::Param) {
            let Some(Site::Ref(ns)) = site_of(&t.elem) else { continue };
            if !a_pool.get(&ns).map_or(false, |v| v.contains(&t.text)) {
                continue; // a convention name
            }
            if ns == dns && t.text == dname {
                continue; // a reference to the element itself
            }
            let b_has = |n: &str| b_pool.get(&ns).map_or(false, |v| v.iter().any(|x| x == n)) || renames.iter().any(|(rns, _, to)| *rns == ns && to == n);
            if b_has(&t.text) {
                continue;
            }
            let free: Vec<String> = b_pool.get(&ns).map_or(vec![], |v| {
                v.iter().filter(|n| !a_pool.get(&ns).map_or(false, |p| p.contains(n)) && !renames.iter().any(|(rns, from, _)| *rns == ns && from == *n) && !(ns == dns && **n == dname)).cloned().collect()
            });
            if free.is_empty() {
                ok = false;
                break;
            }
            renames.push((ns, free[rng.below(free.len())].clone(), t.text.clone()));
        }
        if !ok {
            continue;
        }
        for c in b.children.iter_mut() {
            for t in c.iter_mut().filter(|t| t.role == Role::Param) {
                let ns = match site_of(&t.elem) {
                    Some(Site::Def(ns)) | Some(Site::Ref(ns)) => ns,
                    _ => continue,
                };
                if let Some((_, _, to)) = renames.iter().find(|(rns, from, _)| *rns == ns && *from == t.text) {
                    t.text = to.clone();
                }
            }
        }
        b.children.push(elem);
    }
}

pub struct PairResult {
    pub c08: Vec<(String, String)>, // (kind, detail)
    pub c09: Vec<(String, String)>,
    pub nodes: Option<(String, String, String)>,
    pub changed: bool,
}

pub fn check_pair(g: &Grammar, ta: &str, tb: &str) -> Result<PairResult, String> {
    let mut fa = crate::a2lgen::load(ta)?;
    let mut fb = crate::a2lgen::load(tb)?;
    let ma = read_modules(g, &fa.write_to_string()).and_then(|m| m.into_iter().next()).ok_or("cannot read A")?;
    let mb = read_modules(g, &fb.write_to_string()).and_then(|m| m.into_iter().next()).ok_or("cannot read B")?;
    let before = fa.write_to_string();
    catch(|| fa.merge_modules(&mut fb)).map_err(|p| format!("panic: {p}"))?;
    let wr = fa.write_to_string();
    let mr = read_modules(g, &wr).and_then(|m| m.into_iter().next()).ok_or("cannot read the result")?;
    let (va, vb, vr) = (views(&ma), views(&mb), views(&mr));
    let mut res = PairResult { c08: vec![], c09: vec![], nodes: Some((nodes_text(&ma), nodes_text(&mb), nodes_text(&mr))), changed: wr != before };
    let find = |v: &Vec<NodeView>, ns: Ns, name: &str| v.iter().position(|n| n.ns == Some(ns) && n.name == name);
    // --- C08.1 every element of A is unchanged (GROUP / FUNCTION may gain members)
    for na in va.iter().filter(|n| n.ns.is_some()) {
        match find(&vr, na.ns.unwrap(), &na.name) {
            None => res.c08.push(("a-lost".into(), format!("{} {} of A is missing in the result", na.tag, na.name))),
            Some(i) => {
                let nr = &vr[i];
                let grows = na.tag == "GROUP" || na.tag == "FUNCTION";
                let same = nr.tag == na.tag && if grows { na.refs.iter().all(|r| nr.refs.contains(r)) } else { nr.body == na.body && nr.refs == na.refs };
                if !same {
                    res.c08.push(("a-changed".into(), format!("{} {} of A was changed by the merge: refs {:?} -> {:?}", na.tag, na.name, na.refs, nr.refs)));
                }
            }
        }
    }
    // --- names unique per namespace
    let mut seen: BTreeMap<(Ns, String), usize> = BTreeMap::new();
    for n in vr.iter().filter(|n| n.ns.is_some()) {
        *seen.entry((n.ns.unwrap(), n.name.clone())).or_default() += 1;
    }
    for ((ns, name), c) in &seen {
        if *c > 1 {
            res.c08.push(("duplicate-name".into(), format!("{ns:?} {name} occurs {c} times in the result")));
        }
    }
    // --- representative of every named element of B
    let mut rep: HashMap<(Ns, String), String> = HashMap::new();
    for nb in vb.iter().filter(|n| n.ns.is_some()) {
        let ns = nb.ns.unwrap();
        if ns == Ns::MemorySegment || ns == Ns::Criterion {
            continue;
        }
        let in_a = find(&va, ns, &nb.name);
        // candidates: elements of the result that are not elements of A, same tag and static body, named name / name.MERGE*
        let cand = vr.iter().find(|n| {
            n.ns == Some(ns) && n.tag == nb.tag && n.body == nb.body && find(&va, ns, &n.name).is_none() && (n.name == nb.name || (n.name.starts_with(&format!("{}.MERGE", nb.name)) && n.name[nb.name.len() + 6..].chars().all(|c| c.is_ascii_digit())))
        });
        match (in_a, cand) {
            (Some(ia), None) => {
                // must be shared with an identical element of A
                let na = &va[ia];
                let grows = na.tag == "GROUP" || na.tag == "FUNCTION";
                if grows && na.tag == nb.tag {
                    rep.insert((ns, nb.name.clone()), nb.name.clone());
                } else if na.tag == nb.tag && na.body == nb.body {
                    rep.insert((ns, nb.name.clone()), nb.name.clone());
                    rep.insert((ns, format!("\u{1}shared:{}", nb.name)), String::new());
                } else {
                    res.c08.push(("b-lost".into(), format!("{} {} of B conflicts with A's element of that name but is not represented in the result under a fresh name", nb.tag, nb.name)));
                }
            }
            (_, Some(c)) => {
                rep.insert((ns, nb.name.clone()), c.name.clone());
            }
            (None, None) => res.c08.push(("b-lost".into(), format!("{} {} of B is not represented in the result", nb.tag, nb.name))),
        }
    }
    // --- C09 references of B's elements designate the representatives of their targets
    for nb in vb.iter().filter(|n| n.ns.is_some()) {
        let ns = nb.ns.unwrap();
        let Some(rname) = rep.get(&(ns, nb.name.clone())) else { continue };
        let Some(ir) = find(&vr, ns, rname) else { continue };
        let nr = &vr[ir];
        let shared = rep.contains_key(&(ns, format!("\u{1}shared:{}", nb.name)));
        let grows = nb.tag == "GROUP" || nb.tag == "FUNCTION";
        for (k, (site, target)) in nb.refs.iter().enumerate() {
            let Some(tns) = site_ns(site) else { continue };
            let want = rep.get(&(tns, target.clone())).cloned().unwrap_or_else(|| target.clone());
            let ok = if grows || shared { nr.refs.iter().any(|(s, t)| s == site && *t == want) } else { nr.refs.get(k).map_or(false, |(s, t)| s == site && *t == want) };
            if !ok {
                let kind = if shared { "shared-element-retargeted" } else if grows && find(&va, ns, &nb.name).is_some() { "member-lost" } else { "ref-not-renamed" };
                let msg = format!("{} {} of B refers at {site} to {target}, whose representative in the result is {want}; the representative {} {} has {:?}", nb.tag, nb.name, nr.tag, nr.name, nr.refs.iter().filter(|(s, _)| s == site).map(|(_, t)| t.clone()).collect::<Vec<_>>());
                if kind == "member-lost" {
                    res.c08.push((format!("member-lost:{site}"), msg));
                } else {
                    res.c09.push((format!("{kind}:{site}"), msg));
                }
            }
        }
    }
    // --- unnamed singletons that are taken over from B (MOD_COMMON, VARIANT_CODING, ... when A has none): their
    //     references designate the representatives as well
    for nb in vb.iter().filter(|n| n.ns.is_none()) {
        if va.iter().any(|n| n.tag == nb.tag) {
            continue;
        }
        let rs: Vec<&_> = vr.iter().filter(|n| n.tag == nb.tag).collect();
        if rs.len() != 1 || vb.iter().filter(|n| n.tag == nb.tag).count() != 1 {
            continue;
        }
        for (site, target) in &nb.refs {
            let Some(tns) = site_ns(site) else { continue };
            let want = rep.get(&(tns, target.clone())).cloned().unwrap_or_else(|| target.clone());
            if !rs[0].refs.iter().any(|(s, t)| s == site && *t == want) {
                res.c09.push((format!("ref-not-renamed:{site}"), format!("{} of B refers at {site} to {target}, whose representative in the result is {want}; the {} of the result has {:?}", nb.tag, nb.tag, rs[0].refs.iter().filter(|(s, _)| s == site).map(|(_, t)| t.clone()).collect::<Vec<_>>())));
            }
        }
    }
    // --- no dangling reference in the result when both inputs were consistent
    if let (Ok(ga), Ok(gb), Ok(gr)) = (graph_of(&ma), graph_of(&mb), graph_of(&mr)) {
        if ga.dangling().is_empty() && gb.dangling().is_empty() {
            if let Some((tns, r)) = gr.dangling().first() {
                res.c09.push((format!("dangling:{}", r.site), format!("result has a dangling reference: {} {} -> {tns:?} {} at {}", r.owner.0, r.owner.1, r.target, r.site)));
            }
        }
    }
    Ok(res)
}

pub fn run(args: &Args, c09: bool) -> Report {
    let mut rep = Report::new(
        if c09 { "C09" } else { "C08" },
        "pairs (A, B) of consistent generated modules (every reference site populated) with overlap 0 / 30 / 60 %: identical twins, same-name different-content conflicts in every namespace incl. across kinds of the shared namespaces, pre-existing X.MERGE / X.MERGE2 names; special pairs (B empty, B = A, A empty); sequences of three merges. non-trivial = the merge changed A; distinct = distinct (A, B)",
    );
    let g = match Grammar::load() {
        Ok(g) => g,
        Err(e) => {
            rep.fail("infrastructure", String::new(), e);
            return rep;
        }
    };
    let mut rng = Rng::new(args.seed);
    let mut pairs: Vec<(String, String, &'static str)> = vec![];
    if let Some(input) = &args.replay {
        let mut it = input.split_whitespace();
        let a = String::from_utf8_lossy(&unhex(it.next().unwrap_or("-"))).into_owned();
        let b = String::from_utf8_lossy(&unhex(it.next().unwrap_or("-"))).into_owned();
        pairs.push((a, b, "replay"));
    } else {
        let n = if args.thorough { 15000 } else { 600 };
        let empty = "ASAP2_VERSION 1 71 /begin PROJECT p \"\" /begin MODULE m \"\" /end MODULE /end PROJECT".to_string();
        for i in 0..n {
            let (a, b) = make_pair(&g, &mut rng, [0, 30, 60][i % 3], 1 + i % 2);
            let (ta, tb) = (a.text("m", &mut rng), b.text("m", &mut rng));
            match i % 17 {
                3 => pairs.push((ta.clone(), empty.clone(), "b-empty")),
                5 => pairs.push((ta.clone(), ta.clone(), "self")),
                7 => pairs.push((empty.clone(), tb.clone(), "a-empty")),
                _ => {}
            }
            pairs.push((ta, tb, ["disjoint", "overlap30", "overlap60"][i % 3]));
        }
    }
    for (i, (ta, tb, family)) in pairs.iter().enumerate() {
        let input = format!("{} {}", hex(ta.as_bytes()), hex(tb.as_bytes()));
        match check_pair(&g, ta, tb) {
            Err(e) => {
                if e.starts_with("panic") {
                    rep.fail("panic", input, e);
                } else {
                    rep.fail("infrastructure", input, e);
                }
            }
            Ok(r) => {
                rep.case(&(ta, tb), r.changed);
                rep.bump(family);
                let fails = if c09 { &r.c09 } else { &r.c08 };
                let mut kinds_seen = std::collections::HashSet::new();
                for (k, d) in fails {
                    if kinds_seen.insert(k.clone()) {
                        rep.fail(k, input.clone(), d.clone());
                    }
                }
                // family-specific laws (C08)
                if !c09 {
                    if *family == "b-empty" || *family == "self" {
                        if r.changed {
                            rep.fail("identity-law", input.clone(), format!("merging {} changed the module", if *family == "self" { "an identical copy" } else { "an empty module" }));
                        }
                    }
                }
                if let Some((na, nb, nr)) = &r.nodes {
                    // canonical answer (what the node abstraction of Model/Merge.lean can carry): nodes sorted;
                    // FUNCTION / GROUP: static-body hash not compared, references grouped by site (sites ascending, first
                    // occurrences in order, duplicates dropped) -- whether A has an empty list block and where a block taken
                    // over from B lands are invisible in the graph; MOD_PAR: hash not compared when A and B both have one
                    // and they differ (B's MEMORY_SEGMENT / MEMORY_LAYOUT / SYSTEM_CONSTANT are added inside A's)
                    fn modpar_hash(m: &str) -> Option<&str> {
                        m.split(',').find_map(|n| {
                            let p: Vec<&str> = n.split('~').collect();
                            if p[0] == "MOD_PAR" { p.get(2).copied() } else { None }
                        })
                    }
                    fn canon_refs(refs: &str) -> String {
                        if refs == "-" {
                            return "-".to_string();
                        }
                        let r: Vec<&str> = refs.split(';').collect();
                        let mut sites: Vec<&str> = vec![];
                        for x in &r {
                            let s = x.split('@').next().unwrap_or("");
                            if !sites.contains(&s) {
                                sites.push(s);
                            }
                        }
                        sites.sort();
                        let mut out: Vec<&str> = vec![];
                        for s in sites {
                            for x in &r {
                                if x.split('@').next().unwrap_or("") == s && !out.contains(x) {
                                    out.push(x);
                                }
                            }
                        }
                        out.join(";")
                    }
                    let star_modpar = matches!((modpar_hash(na), modpar_hash(nb)), (Some(x), Some(y)) if x != y);
                    let mut ns: Vec<String> = if nr == "-" { vec![] } else {
                        nr.split(',').map(|n| {
                            let p: Vec<&str> = n.split('~').collect();
                            if p[0] == "FUNCTION" || p[0] == "GROUP" {
                                format!("{}~{}~*~{}", p[0], p[1], canon_refs(p[3]))
                            } else if p[0] == "MOD_PAR" && star_modpar {
                                format!("{}~{}~*~{}", p[0], p[1], p[3])
                            } else {
                                n.to_string()
                            }
                        }).collect()
                    };
                    ns.sort();
                    rep.tie(format!("mrg {na} {nb}"), if ns.is_empty() { "-".to_string() } else { ns.join(",") });
                }
                if i % 41 == 0 {
                    rep.sample(format!("{family}: A {} nodes, B {} nodes", r.nodes.as_ref().map_or(0, |n| n.0.split(',').count()), r.nodes.as_ref().map_or(0, |n| n.1.split(',').count())));
                }
            }
        }
    }
    // --- the unnamed A2ML block: taken over from B with its text when A has none (also a block that the A2ML parser
    //     rejected while loading in non-strict mode, which exists as text only), A's own block is kept
    if !c09 && args.replay.is_none() {
        let variants = [
            "block \"IF_DATA\" taggedunion { \"XCP\" taggedstruct { (\"EV\" uint)*; }; };",
            "struct NoIfData { uint; };",
            "block \"IF_DATA\" taggedunion {",
        ];
        let file = |a2ml: Option<&str>, extra: &str| {
            let blk = a2ml.map(|t| format!("/begin A2ML\n{t}\n/end A2ML\n")).unwrap_or_default();
            format!("ASAP2_VERSION 1 71\n/begin PROJECT p \"\"\n/begin MODULE m \"\"\n{blk}{extra}\n/end MODULE\n/end PROJECT\n")
        };
        let text_of = |f: &a2lfile::A2lFile| f.project.module[0].a2ml.as_ref().map(|a| a.a2ml_text.trim().to_string());
        for (ia, va) in [None, Some(variants[0]), Some(variants[1])].iter().enumerate() {
            for (ib, vb) in variants.iter().enumerate() {
                let (ta, tb) = (file(*va, "/begin UNIT ua \"\" \"\" DERIVED /end UNIT"), file(Some(vb), "/begin UNIT ub \"\" \"\" DERIVED /end UNIT"));
                let input = format!("{} {}", hex(ta.as_bytes()), hex(tb.as_bytes()));
                let (Ok(Ok((mut fa, _))), Ok(Ok((mut fb, _)))) = (catch(|| a2lfile::load_from_string(&ta, None, false)), catch(|| a2lfile::load_from_string(&tb, None, false))) else {
                    rep.fail("infrastructure", input, "the A2ML scenario does not load".to_string());
                    continue;
                };
                let (before_a, before_b) = (text_of(&fa), text_of(&fb));
                if let Err(p) = catch(|| fa.merge_modules(&mut fb)) {
                    rep.fail("panic", input, format!("panic: {p}"));
                    continue;
                }
                rep.case(&(ia, ib, "a2ml"), true);
                rep.bump("a2ml-block");
                let want = before_a.clone().or(before_b.clone());
                let got = text_of(&fa);
                if got != want || want.as_deref().map_or(true, str::is_empty) {
                    rep.fail("a2ml-text", input.clone(), format!("A2ML block after the merge: {got:?}, expected {want:?} (A had {before_a:?}, B had {before_b:?})"));
                }
                // and it survives writing and reading back
                let wr = fa.write_to_string();
                match catch(|| a2lfile::load_from_string(&wr, None, false)) {
                    Ok(Ok((f2, _))) => {
                        if text_of(&f2) != want {
                            rep.fail("a2ml-text", input, format!("A2ML block after merge + write + load: {:?}, expected {want:?}", text_of(&f2)));
                        }
                    }
                    _ => rep.fail("a2ml-text", input, "the merged file cannot be read back".to_string()),
                }
            }
        }
    }
    rep
}
