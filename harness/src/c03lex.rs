//! lexer-level correspondence (part of C03): `tokenize_core` through the hook vs the Lean model of tokenizer.rs
use crate::a2lgen;
use crate::common::*;
use crate::soup::*;

pub fn lex_answer(text: &str) -> String {
    match catch(|| a2lfile::verif_hooks::tokenize_dump(text)) {
        Err(_) => "PANIC".to_string(),
        Ok(Err((kind, line))) => format!("err {kind} {line}"),
        Ok(Ok(toks)) => {
            let mut s = String::from("ok");
            for (k, st, en, l) in toks {
                s.push_str(&format!(" {k}:{st}:{en}:{l}"));
            }
            s
        }
    }
}

/// lexical inputs: soups, noise, documents, their prefixes and token mutations
pub fn lex_inputs(rng: &mut Rng, thorough: bool) -> Vec<(String, &'static str)> {
    let mut v: Vec<(String, &'static str)> = vec![];
    let scale = if thorough { 20 } else { 1 };
    for i in 0..4000 * scale {
        v.push((token_soup(rng, if i % 20 == 0 { 60 } else { 8 }), "soup"));
    }
    for _ in 0..2000 * scale {
        v.push((byte_noise(rng, 24), "noise"));
    }
    for d in 0..20 * scale {
        let elems = a2lgen::random_module_elems(rng, "", 8, true);
        let text = a2lgen::file_text(&[elems], rng);
        let text = if d % 2 == 0 { text.replace('\n', "\r\n") } else { text };
        for p in prefixes(&text, if thorough { 1 } else { 3 }) {
            v.push((p, "prefix"));
        }
        for m in token_mutations(&text, rng, 60) {
            v.push((m, "mutation"));
        }
        v.push((text, "document"));
    }
    // hand-picked corner cases (kept forever; several were panics on the pinned tree)
    for s in ["", "/", "/begin A2ML x", "/begin A2ML\n", "/begin A2ML /", "/begin A2ML /*", "/begin A2ML //", "/begin A2ML x /end A2ML", "/begin A2ML\r\n x \r\n /end A2ML",
              "\"", "\"\"", "\"\\\"", "\"a\"\"", "/*", "/**/", "/* *", "//", "/include", "/include x", "/include \"x\"", "0x", "-", ".", "1a", "a/begin", "\"a\"b", "/begin/end",
              "  /* c */", "x /* c */", "/begin A2ML", "/begin A2ML ", "/begin  A2ML  \n  /end A2ML", "A2ML", "/end A2ML x", "/begin A2ML \"/end A2ML", "/begin x A2ML y"] {
        v.push((s.to_string(), "corner"));
    }
    v
}

pub fn run(args: &Args) -> Report {
    let mut rep = Report::new("C03L", "lexer correspondence only");
    let mut rng = Rng::new(args.seed);
    for (text, family) in lex_inputs(&mut rng, args.thorough) {
        rep.case(&text, !text.trim().is_empty());
        rep.bump(family);
        rep.tie(format!("lex {}", hex(text.as_bytes())), lex_answer(&text));
    }
    rep
}
