//! C06: strict and non-strict loading agree except on recoverable problems. Every input is loaded in both modes.
use crate::common::*;
use crate::docgen::*;
use crate::tree::*;

#[derive(Clone)]
struct Case {
    text: String,
    family: &'static str,
    /// (diagnostic kind, line) that must be reported in non-strict mode, when the fault was injected at a known place
    expect: Option<(&'static str, u32)>,
}

fn line_of_token(toks: &[GTok], idx: usize, text: &str) -> u32 {
    // tokens are rendered in order; find the idx-th token's line by re-tokenising with the hook
    let dump = a2lfile::verif_hooks::tokenize_dump(text).unwrap_or_default();
    // comments in `toks` are tokens too, so indices correspond one-to-one when nothing else was dropped
    let _ = toks;
    dump.get(idx).map_or(0, |t| t.3)
}

fn is_deprecation(k: &str) -> bool {
    k.starts_with("BlockRefDeprecated") || k.starts_with("EnumRefDeprecated")
}

pub fn run(args: &Args) -> Report {
    let mut rep = Report::new(
        "C06",
        "IF_DATA-free documents from the grammar: valid (all six versions, with deprecated and too-new elements), with one injected recoverable fault at a known line (digit-leading identifier, identifier in place of a string, wrong /end tag, duplicated single child, unknown block, unknown keyword, missing ASAP2_VERSION), with hard faults (deleted parameter, unknown enum value, missing /begin, truncated), plus single-token mutations; each loaded strict and non-strict. non-trivial = input with >= 10 tokens; distinct = distinct texts",
    );
    let g = match Grammar::load() {
        Ok(g) => g,
        Err(e) => {
            rep.fail("infrastructure", String::new(), e);
            return rep;
        }
    };
    let mut rng = Rng::new(args.seed);
    let mut cases: Vec<Case> = vec![];
    if let Some(input) = &args.replay {
        cases.push(Case { text: String::from_utf8_lossy(&unhex(input.split_whitespace().next().unwrap_or("-"))).into_owned(), family: "replay", expect: None });
    } else {
        let ndocs = if args.thorough { 24000 } else { 500 };
        for d in 0..ndocs {
            let version = [6u8, 6, 6, 5, 4, 3, 2, 1][d % 8];
            let opts = GenOpts { version, deprecated: d % 3 == 0, opt_prob: [20, 45][d % 2], comments: d % 4 == 0, param_comments: d % 4 == 0, ..GenOpts::default() };
            let toks = gen_document(&g, &mut rng, opts);
            let layout = [Layout::Canonical, Layout::Wild][d % 2];
            let seed = rng.next();
            let text = render(&toks, &mut Rng(seed), layout, false);
            cases.push(Case { text: text.clone(), family: "valid", expect: None });
            // declared version older than the content: too-new elements
            if d % 5 == 0 && version == 6 {
                let mut t2 = toks.clone();
                t2[2].text = ["50", "51", "60", "61", "70"][rng.below(5)].to_string();
                cases.push(Case { text: render(&t2, &mut Rng(seed), layout, false), family: "older-version", expect: None });
            }
            // one recoverable fault at a known token
            let params: Vec<usize> = (3..toks.len()).filter(|&i| toks[i].role == Role::Param).collect();
            let ends: Vec<usize> = (0..toks.len()).filter(|&i| toks[i].role == Role::End).collect();
            let kind = d % 9;
            let mut t2 = toks.clone();
            let mut expect: Option<(&'static str, usize)> = None;
            let fam: &'static str;
            match kind {
                0 => {
                    // digit-leading identifier where an identifier parameter stands
                    fam = "fault:invalid-identifier";
                    let cands: Vec<usize> = params.iter().copied().filter(|&i| toks[i].text.chars().next().map_or(false, |c| c.is_ascii_alphabetic() || c == '_') && !toks[i].text.chars().all(|c| c.is_ascii_uppercase() || c == '_' || c.is_ascii_digit())).collect();
                    if let Some(&i) = cands.get(rng.below(cands.len().max(1))) {
                        t2[i].text = format!("9{}", toks[i].text);
                        expect = Some(("InvalidIdentifier", i));
                    }
                }
                1 => {
                    fam = "fault:ident-for-string";
                    let cands: Vec<usize> = params.iter().copied().filter(|&i| toks[i].text.starts_with('"')).collect();
                    if let Some(&i) = cands.get(rng.below(cands.len().max(1))) {
                        t2[i].text = "not_a_string".to_string();
                        expect = Some(("UnexpectedTokenType", i));
                    }
                }
                2 => {
                    fam = "fault:wrong-end-tag";
                    if let Some(&i) = ends.get(rng.below(ends.len().max(1))) {
                        t2[i + 1].text = "WRONG_TAG".to_string();
                        expect = Some(("IncorrectEndTag", i + 1));
                    }
                }
                3 => {
                    fam = "fault:unknown-block";
                    if let Some(&i) = ends.get(rng.below(ends.len().max(1))) {
                        let dpt = toks[i].depth + 1;
                        for (j, (tx, role)) in [("/begin", Role::Begin), ("UNKNOWN_B", Role::Tag), ("1", Role::Param), ("/end", Role::End), ("UNKNOWN_B", Role::Tag)].into_iter().enumerate() {
                            t2.insert(i + j, GTok { text: tx.to_string(), role, depth: dpt, elem: String::new() });
                        }
                        expect = Some(("UnknownSubBlock", i + 1));
                    }
                }
                4 => {
                    fam = "fault:missing-version";
                    t2.drain(0..3);
                    expect = None;
                }
                7 => {
                    // PROJECT without any MODULE: reported (recoverable) at the token that ends the search, the /end of PROJECT
                    fam = "fault:missing-module";
                    let mut depth_mod: Option<usize> = None;
                    let mut keep: Vec<GTok> = vec![];
                    let mut i = 0;
                    while i < toks.len() {
                        if depth_mod.is_none() && toks[i].role == Role::Begin && toks.get(i + 1).map_or(false, |x| x.text == "MODULE") {
                            depth_mod = Some(toks[i].depth);
                        }
                        if let Some(dm) = depth_mod {
                            if toks[i].role == Role::End && toks[i].depth == dm && toks.get(i + 1).map_or(false, |x| x.text == "MODULE") {
                                depth_mod = None;
                                i += 2;
                                continue;
                            }
                            i += 1;
                            continue;
                        }
                        keep.push(toks[i].clone());
                        i += 1;
                    }
                    t2 = keep;
                    if let Some(e) = (0..t2.len()).rev().find(|&i| t2[i].role == Role::End && t2.get(i + 1).map_or(false, |x| x.text == "PROJECT")) {
                        if !t2.iter().any(|x| x.text == "MODULE") {
                            expect = Some(("InvalidMultiplicityNotPresent", e));
                        }
                    }
                }
                8 => {
                    // data behind the end of the file's content: reported at the first additional token
                    fam = "fault:additional-tokens";
                    let extra = ["\"trailing\"", "42", "0x1F", "extra_ident"][rng.below(4)];
                    let idx = t2.len();
                    t2.push(GTok { text: extra.to_string(), role: Role::Param, depth: 0, elem: String::new() });
                    if rng.chance(1, 2) {
                        t2.push(GTok { text: "7".to_string(), role: Role::Param, depth: 0, elem: String::new() });
                    }
                    expect = Some(("AdditionalTokensError", idx));
                }
                5 => {
                    fam = "hard:deleted-parameter";
                    if let Some(&i) = params.get(rng.below(params.len().max(1))) {
                        t2.remove(i);
                    }
                }
                _ => {
                    fam = "hard:unknown-enum-or-begin";
                    // replace an upper-case parameter (enum value) or drop a /begin
                    let cands: Vec<usize> = params.iter().copied().filter(|&i| toks[i].text.len() > 2 && toks[i].text.chars().all(|c| c.is_ascii_uppercase() || c == '_' || c.is_ascii_digit()) && toks[i].text.chars().next().unwrap().is_ascii_uppercase()).collect();
                    if !cands.is_empty() && rng.chance(1, 2) {
                        t2[cands[rng.below(cands.len())]].text = "NOT_AN_ENUM_VALUE".to_string();
                    } else {
                        let begins: Vec<usize> = (0..toks.len()).filter(|&i| toks[i].role == Role::Begin).collect();
                        t2.remove(begins[rng.below(begins.len())]);
                    }
                }
            }
            let ftext = render(&t2, &mut Rng(seed), layout, false);
            let exp = expect.map(|(k, idx)| (k, line_of_token(&t2, idx, &ftext)));
            cases.push(Case { text: ftext.clone(), family: fam, expect: exp });
            // documents with an A2ML definition and IF_DATA: valid, and with a bare word where the definition has a string
            // (non-strict reading accepts it with a warning; strict reading falls back to uninterpreted content)
            if d % 6 == 1 {
                let stoks = gen_document(&g, &mut rng, GenOpts { specials: true, opt_prob: 35, ..GenOpts::default() });
                let sseed = rng.next();
                cases.push(Case { text: render(&stoks, &mut Rng(sseed), layout, false), family: "valid-ifdata", expect: None });
                let mut inside = false;
                let mut strings: Vec<usize> = vec![];
                for i in 1..stoks.len() {
                    if stoks[i].text == "IF_DATA" && stoks[i - 1].role == Role::Begin {
                        inside = true;
                    } else if stoks[i].text == "IF_DATA" && stoks[i - 1].role == Role::End {
                        inside = false;
                    } else if inside && stoks[i].text.starts_with('"') {
                        strings.push(i);
                    }
                }
                if !strings.is_empty() {
                    let mut s2 = stoks.clone();
                    s2[strings[rng.below(strings.len())]].text = "bare_word".to_string();
                    cases.push(Case { text: render(&s2, &mut Rng(sseed), layout, false), family: "ifdata:ident-for-string", expect: None });
                }
            }
            // a definition by grammar with a conforming instance, and the same instance with a bare word in place of one of
            // its strings (the instance is interpreted by the definition: the deviation is one the non-strict reader tolerates)
            if d % 3 == 2 {
                let case = crate::a2mlgen::gen_a2ml(&mut rng, 1 + d % 3);
                for _ in 0..3 {
                    let inst = crate::a2mlgen::gen_instance(&mut rng, &case.root);
                    let doc = |content: &[String]| format!("ASAP2_VERSION 1 71\n/begin PROJECT p \"\"\n/begin MODULE m \"\"\n/begin A2ML\n{}\n/end A2ML\n/begin IF_DATA\n{}\n/end IF_DATA\n/end MODULE\n/end PROJECT\n", case.a2ml, content.join("\n"));
                    let strings: Vec<usize> = (0..inst.len()).filter(|&i| inst[i].starts_with('"')).collect();
                    if strings.is_empty() {
                        continue;
                    }
                    cases.push(Case { text: doc(&inst), family: "a2ml-instance", expect: None });
                    let mut i2 = inst.clone();
                    i2[strings[rng.below(strings.len())]] = "bare_word".to_string();
                    cases.push(Case { text: doc(&i2), family: "a2ml-instance:ident-for-string", expect: None });
                    break;
                }
            }
            if d % 4 == 0 {
                for m in crate::soup::token_mutations(&text, &mut rng, 3) {
                    cases.push(Case { text: m, family: "mutation", expect: None });
                }
            }
        }
    }
    // hard fault behind a rolled-back look-ahead: the last tuple of a value list is incomplete and the next token (the
    // /end) stands some lines further down. The sequence loop reads on to that token, gives up and rewinds; the problem is
    // then detected at the first token of the incomplete tuple, and that is the line both modes have to report.
    if args.replay.is_none() {
        for (k, (head, tuple_ok, tuple_bad, tag)) in [
            ("/begin COMPU_VTAB t \"\" TAB_VERB 2", "1 \"a\"", "2", "COMPU_VTAB"),
            ("/begin COMPU_TAB t \"\" TAB_INTP 2", "1 1", "2", "COMPU_TAB"),
            ("/begin COMPU_VTAB_RANGE t \"\" 2", "1 2 \"a\"", "3 4", "COMPU_VTAB_RANGE"),
        ]
        .iter()
        .enumerate()
        {
            for gap in 1..=3usize {
                for lead in 0..=2usize {
                    let mut text = String::from("ASAP2_VERSION 1 71\n/begin PROJECT p \"\"\n/begin MODULE m \"\"\n");
                    text.push_str(&"\n".repeat(lead));
                    text.push_str(head);
                    text.push('\n');
                    text.push_str(tuple_ok);
                    text.push('\n');
                    text.push_str(tuple_bad);
                    text.push_str(&"\n".repeat(gap));
                    text.push_str(&format!("/end {tag}\n/end MODULE\n/end PROJECT\n"));
                    let line = (3 + lead + 3) as u32; // the line of the first token of the incomplete tuple
                    let _ = k;
                    cases.push(Case { text, family: "hard:incomplete-tuple", expect: Some(("UnexpectedTokenType", line)) });
                }
            }
        }
    }
    for (i, c) in cases.iter().enumerate() {
        let text = &c.text;
        rep.case(text, text.split_whitespace().count() >= 10);
        rep.bump(c.family);
        let input = hex(text.as_bytes());
        let s = load(text, true);
        let n = load(text, false);
        if let Loaded::Panic(p) = &s {
            rep.fail("panic", input.clone(), p.clone());
            continue;
        }
        if let Loaded::Panic(p) = &n {
            rep.fail("panic", input.clone(), p.clone());
            continue;
        }
        match (&s, &n) {
            (Loaded::Ok(ms, ls), Loaded::Ok(mn, ln)) if text.contains("IF_DATA") => {
                // with IF_DATA only the first sentence of the property applies: a problem inside IF_DATA makes strict
                // loading fall back to uninterpreted content instead of failing
                rep.bump("outcome:both-ok-ifdata");
                if !log_text(ln).is_empty() {
                    rep.bump("outcome:both-ok-ifdata-with-warnings");
                }
                if log_text(ln).is_empty() {
                    if ms != mn {
                        rep.fail("models-differ", input.clone(), "non-strict loading succeeds without warnings, but strict loading yields a different model".into());
                    }
                    if !log_text(ls).is_empty() {
                        rep.fail("logs-differ", input.clone(), format!("non-strict loading succeeds without warnings, strict log is [{}]", log_text(ls)));
                    }
                }
            }
            (Loaded::Ok(ms, ls), Loaded::Ok(mn, ln)) => {
                rep.bump("outcome:both-ok");
                if ms != mn {
                    rep.fail("models-differ", input.clone(), "strict and non-strict loading both succeed but yield different models".into());
                }
                let nondep: Vec<String> = log_text(ln).split(',').filter(|x| !x.is_empty() && !is_deprecation(x)).map(|x| x.to_string()).collect();
                if !nondep.is_empty() {
                    rep.fail("strict-too-lenient", input.clone(), format!("non-strict reports {nondep:?} but strict loading succeeds"));
                }
                if log_text(ls) != log_text(ln) {
                    rep.fail("logs-differ", input.clone(), format!("both succeed, strict log [{}], non-strict log [{}]", log_text(ls), log_text(ln)));
                }
            }
            (Loaded::Ok(..), Loaded::Err(e)) => {
                rep.bump("outcome:strict-ok-nonstrict-err");
                rep.fail("strict-ok-nonstrict-fails", input.clone(), format!("strict loading succeeds but non-strict loading fails: {e}"));
            }
            (Loaded::Err(es), Loaded::Ok(_, ln)) => {
                rep.bump("outcome:strict-err-nonstrict-ok");
                let lt = log_text(ln);
                let nondep: Vec<&str> = lt.split(',').filter(|x| !x.is_empty() && !is_deprecation(x)).collect();
                if lt.is_empty() {
                    rep.fail("strict-too-strict", input.clone(), format!("strict loading fails ({es}) although non-strict loading succeeds without warnings"));
                } else if nondep.is_empty() && !text.contains("IF_DATA") {
                    rep.fail("strict-too-strict", input.clone(), format!("strict loading fails ({es}) although non-strict loading reports nothing but deprecation notices [{lt}]"));
                }
            }
            (Loaded::Err(es), Loaded::Err(en)) => {
                rep.bump("outcome:both-err");
                if let (Some((kind, line)), "hard:incomplete-tuple") = (&c.expect, c.family) {
                    let want = format!("{kind}@{line}");
                    for (mode, e) in [("strict", es), ("non-strict", en)] {
                        if *e != want {
                            rep.fail("diagnostic-line", input.clone(), format!("the incomplete tuple starts on line {line}: {mode} loading reports {e}, expected {want}"));
                        }
                    }
                }
            }
            _ => {}
        }
        // diagnostics carry the line of the token at which the problem was detected
        if let (Some((kind, line)), Loaded::Ok(_, ln)) = (&c.expect, &n) {
            let want = format!("{kind}@{line}");
            if !log_text(ln).split(',').any(|x| x == want) {
                rep.fail("diagnostic-line", input.clone(), format!("injected fault ({}) should be reported as {want}; non-strict log is [{}]", c.family, log_text(ln)));
            }
        }
        if let (Some((kind, line)), Loaded::Err(es)) = (&c.expect, &s) {
            let want = format!("{kind}@{line}");
            // the strict error is the first problem in the file; the injected one is the only one unless the document is already faulty
            // (inside an open list the strict error may be a consequence of the injected one and carry another class:
            //  the property asks for the line of the token at which the problem was detected, not for the class)
            let mut same_line = es.rsplit('@').next() == Some(&line.to_string());
            // an element of an open list that fails in strict mode ends the list; the problem is then detected at the
            // element's first token, which may stand on an earlier line than the injected token: accepted when no block
            // boundary lies between the two lines
            if let Some(sl) = es.rsplit('@').next().and_then(|x| x.parse::<usize>().ok()) {
                let l = *line as usize;
                if sl < l && l - sl <= 4 {
                    let between: Vec<&str> = text.split('\n').skip(sl).take(l - sl - 1).collect();
                    if !between.iter().any(|x| x.contains("/begin") || x.contains("/end")) {
                        same_line = true;
                    }
                }
            }
            if !same_line && !matches!(n, Loaded::Err(_)) {
                if let Loaded::Ok(_, ln) = &n {
                    if log_text(ln).split(',').filter(|x| !x.is_empty() && !is_deprecation(x)).count() == 1 {
                        rep.fail("diagnostic-line", input.clone(), format!("strict error is {es}, the injected fault is {want}: different line"));
                    }
                }
            }
        }
        if i % 397 == 0 {
            rep.sample(format!("{}: {}", c.family, text.chars().take(160).collect::<String>()));
        }
        if i % 3 == 0 {
            for strict in [true, false] {
                if let Some((req, ans)) = tie_case(text, strict) {
                    rep.tie(req, ans);
                }
            }
        }
    }
    rep
}
