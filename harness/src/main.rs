mod a2lgen;
mod a2mlgen;
mod c01;
mod c02;
mod c03;
mod c03lex;
mod c04;
mod c05;
mod c06;
mod c07;
mod c08;
mod c10;
mod c11;
mod c11full;
mod c12;
mod c13;
mod c14;
mod c16;
mod c17;
mod c18;
mod c19;
mod c20;
mod common;
mod docgen;
mod graph;
mod tree;
mod soup;

use common::Args;

fn main() {
    let argv: Vec<String> = std::env::args().collect();
    if argv.len() < 2 {
        eprintln!("usage: harness <property> [--seed N] [--tier quick|thorough] [--out DIR] [--replay INPUT]");
        std::process::exit(2);
    }
    let prop = argv[1].clone();
    let mut args = Args {
        seed: 1,
        thorough: false,
        out: format!("work/{prop}"),
        replay: None,
        rest: vec![],
    };
    let mut i = 2;
    while i < argv.len() {
        match argv[i].as_str() {
            "--seed" => {
                args.seed = argv[i + 1].parse().unwrap_or(1);
                i += 1;
            }
            "--tier" => {
                args.thorough = argv[i + 1] == "thorough";
                i += 1;
            }
            "--out" => {
                args.out = argv[i + 1].clone();
                i += 1;
            }
            "--replay" => {
                args.replay = Some(argv[i + 1].clone());
                i += 1;
            }
            other => args.rest.push(other.to_string()),
        }
        i += 1;
    }
    common::silence_panics();
    let report = match prop.as_str() {
        "C01" => c01::run(&args),
        "C02" => c02::run(&args),
        "C03" => c03::run(&args),
        "C03L" => c03lex::run(&args),
        "C04" => c04::run(&args),
        "C05" => c05::run(&args),
        "C06" => c06::run(&args),
        "C07" => c07::run(&args),
        "C08" => c08::run(&args, false),
        "C09" => c08::run(&args, true),
        "C10" => c10::run(&args),
        "C11" => c11::run(&args),
        "C12" => c12::run(&args),
        "C13" => c13::run(&args),
        "C14" => c14::run_c14(&args),
        "C15" => c14::run_c15(&args),
        "C16" => c16::run(&args),
        "C17" => c17::run(&args),
        "C18" => c18::run(&args),
        "C19" => c19::run(&args),
        "C20" => c20::run(&args),
        _ => {
            eprintln!("unknown property {prop}");
            std::process::exit(2);
        }
    };
    report.write(&args.out);
}
