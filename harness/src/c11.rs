//! C11: check() reference diagnostics are sound, complete and total.
use crate::common::*;
use crate::docgen::*;
use crate::graph::*;
use a2lfile::A2lError;
use std::collections::BTreeMap;

fn xref_targets(errs: &[A2lError]) -> Vec<String> {
    let mut v: Vec<String> = errs
        .iter()
        .filter_map(|e| match e {
            A2lError::CrossReferenceError { target_name, .. } => Some(target_name.clone()),
            _ => None,
        })
        .collect();
    v.sort();
    v
}

/// sites at which check() diagnoses a missing target, as probed on the pinned tree (committed: a change that drops a
/// check makes a covered site unreported)
pub fn covered_sites() -> Vec<String> {
    std::fs::read_to_string("reference/checked_sites.txt").unwrap_or_default().lines().filter(|l| !l.starts_with('#') && !l.is_empty()).map(|l| l.to_string()).collect()
}

pub fn run(args: &Args) -> Report {
    let mut rep = Report::new(
        "C11",
        "consistent modules from the reference-aware generator (every reference site of the grammar populated with an existing target or its convention) and all their single-reference corruptions at covered sites; structurally odd files for totality (six AXIS_DESCR, empty lists, duplicate names, missing MOD_PAR, empty module); non-trivial = every case; distinct = distinct (module, corrupted reference)",
    );
    let g = match Grammar::load() {
        Ok(g) => g,
        Err(e) => {
            rep.fail("infrastructure", String::new(), e);
            return rep;
        }
    };
    let mut rng = Rng::new(args.seed);
    let covered = covered_sites();
    let probe_mode = args.rest.iter().any(|a| a == "--probe-sites");
    let mut site_seen: BTreeMap<String, (u32, u32)> = BTreeMap::new(); // site -> (corruptions, reported)
    let nmods = if args.thorough { 1200 } else { 100 };
    for mi in 0..nmods {
        let mut gm = gen_module(&g, &mut rng, "", 2, [30, 60][mi % 2], true);
        gm.resolve_refs(&mut rng, 0);
        let text = gm.text("m", &mut rng);
        let input = hex(text.as_bytes());
        let file = match crate::a2lgen::load(&text) {
            Ok(f) => f,
            Err(e) => {
                rep.fail("generator", input, e);
                continue;
            }
        };
        rep.case(&text, true);
        // graph as the harness reads it back from the written text
        let graph = read_modules(&g, &file.write_to_string()).and_then(|m| m.first().map(graph_of));
        let graph = match graph {
            Some(Ok(gr)) => gr,
            Some(Err(e)) => {
                rep.fail("infrastructure", input, e);
                continue;
            }
            None => {
                rep.fail("infrastructure", input, "written text could not be read back".into());
                continue;
            }
        };
        if !graph.dangling().is_empty() {
            rep.fail("generator", input.clone(), format!("generated module is not consistent: {:?}", graph.dangling().first()));
            continue;
        }
        // 1. consistent file: no cross-reference problem; check() is pure and total
        let before = file.write_to_string();
        match catch(|| file.check()) {
            Err(p) => {
                rep.fail("panic", input.clone(), p);
                continue;
            }
            Ok(errs) => {
                let x = xref_targets(&errs);
                if !x.is_empty() {
                    rep.fail("unsound", input.clone(), format!("consistent module, but check() reports missing targets {x:?}"));
                }
                if file.write_to_string() != before {
                    rep.fail("impure", input.clone(), "check() modified the model".into());
                }
                rep.tie(format!("chk {}", graph_request(&graph, &covered)), x.join(","));
                crate::c11full::tie_file(&mut rep, &file, false, &input);
            }
        }
        // 2. every single-reference corruption
        let mut ref_positions: Vec<(usize, usize)> = vec![];
        for (ci, c) in gm.children.iter().enumerate() {
            for (ti, t) in c.iter().enumerate() {
                if t.role == Role::Param && matches!(site_of(&t.elem), Some(Site::Ref(_))) && !is_convention(&t.elem, &t.text) {
                    ref_positions.push((ci, ti));
                }
            }
        }
        let sample = if args.thorough || probe_mode { ref_positions.len() } else { ref_positions.len().min(60) };
        for k in 0..sample {
            let (ci, ti) = ref_positions[(k * 7919) % ref_positions.len()];
            let owner_tag = gm.children[ci].iter().find(|t| t.role == Role::Tag).map(|t| t.text.clone()).unwrap_or_default();
            let site = format!("{}@{}", gm.children[ci][ti].elem, owner_tag);
            let old = gm.children[ci][ti].text.clone();
            // mostly a fresh name; sometimes the reserved word of ANOTHER kind of field (which is an ordinary name there)
            let reserved_elsewhere: Vec<&str> = ["NO_COMPU_METHOD", "NO_INPUT_QUANTITY", "NO_INVERSE_TRANSFORMER"].into_iter().filter(|w| !is_convention(&gm.children[ci][ti].elem, w)).collect();
            let bad = if k % 5 == 4 { reserved_elsewhere[k % reserved_elsewhere.len()].to_string() } else { format!("corrupt_{k}_x") };
            gm.children[ci][ti].text = bad.clone();
            let t2 = gm.text("m", &mut Rng(mi as u64));
            gm.children[ci][ti].text = old;
            let inp2 = format!("{} {}", hex(t2.as_bytes()), site);
            rep.case(&(mi, k), true);
            rep.bump(&format!("site:{site}"));
            let Ok(f2) = crate::a2lgen::load(&t2) else {
                rep.fail("generator", inp2, "corrupted module does not load".into());
                continue;
            };
            match catch(|| f2.check()) {
                Err(p) => rep.fail("panic", inp2, p),
                Ok(errs) => {
                    let x = xref_targets(&errs);
                    let reported = x.iter().any(|t| *t == bad);
                    let e = site_seen.entry(site.clone()).or_insert((0, 0));
                    e.0 += 1;
                    e.1 += u32::from(reported);
                    if x.iter().any(|t| *t != bad) {
                        rep.fail("unsound", inp2.clone(), format!("check() reports {x:?}, only {bad} is missing"));
                    }
                    if covered.contains(&site) && !reported {
                        rep.fail("incomplete", inp2.clone(), format!("reference at covered site {site} was corrupted to {bad}, check() does not name it (reports {x:?})"));
                    }
                    if covered.contains(&site) && x.iter().filter(|t| **t == bad).count() != 1 {
                        // one corrupted reference -> one report (a list site may legitimately be checked once per member)
                        rep.bump("multi-report");
                    }
                }
            }
        }
        if mi % 13 == 0 {
            rep.sample(format!("module with {} definitions, {} references, {} corruptions", graph.order.len(), graph.refs.len(), sample));
        }
    }
    // 2b. modules with several dangling references at once: the report is exactly the dangling covered references
    let ndang = if args.thorough { 1200 } else { 100 };
    for mi in 0..ndang {
        let mut gm = gen_module(&g, &mut rng, "", 2, 50, true);
        gm.resolve_refs(&mut rng, 15);
        let text = gm.text("m", &mut rng);
        let input = hex(text.as_bytes());
        let Ok(file) = crate::a2lgen::load(&text) else { continue };
        let Some(Ok(graph)) = read_modules(&g, &file.write_to_string()).and_then(|m| m.first().map(graph_of)) else { continue };
        rep.case(&text, true);
        rep.bump("multi-dangling");
        match catch(|| file.check()) {
            Err(p) => rep.fail("panic", input, p),
            Ok(errs) => {
                let x = xref_targets(&errs);
                let mut want: Vec<String> = graph.dangling().iter().filter(|(_, r)| covered.contains(&format!("{}@{}", r.site, r.owner.0))).map(|(_, r)| r.target.clone()).collect();
                want.sort();
                let (mut xs, mut ws) = (x.clone(), want.clone());
                xs.dedup();
                ws.dedup();
                if xs != ws {
                    rep.fail("report-mismatch", input, format!("check() names {xs:?}, the dangling covered references are {ws:?}"));
                }
                let mut xs2 = x.clone();
                xs2.dedup();
                rep.tie(format!("chkset {}", graph_request(&graph, &covered)), xs2.join(","));
                crate::c11full::tie_file(&mut rep, &file, false, &hex(text.as_bytes()));
                let _ = mi;
            }
        }
    }
    // 2c. the THIS. convention: AXIS_PTS_REF / CURVE_AXIS_REF THIS.x inside a TYPEDEF_CHARACTERISTIC designates the
    //     component x of every TYPEDEF_STRUCTURE that uses the typedef as a component (unless an INSTANCE uses the
    //     typedef directly, or no structure contains it: then the name is looked up like any other object)
    let nthis = if args.thorough { 12000 } else { 300 };
    for k in 0..nthis {
        let pool = ["ax", "cv", "other", "z9"];
        let direct = rng.chance(1, 5);
        let nstruct = rng.below(4);
        let mut structs: Vec<(bool, Vec<&str>)> = vec![];
        for _ in 0..nstruct {
            let contains = rng.chance(3, 4);
            let comps: Vec<&str> = pool.iter().filter(|_| rng.chance(1, 2)).cloned().collect();
            structs.push((contains, comps));
        }
        let refs: Vec<(&str, bool)> = (0..1 + rng.below(2)).map(|_| (pool[rng.below(3)], rng.chance(1, 2))).collect(); // (component, via CURVE_AXIS_REF)
        let this_objects: Vec<&str> = pool.iter().filter(|_| rng.chance(1, 6)).cloned().collect();
        let mut body = String::from("/begin RECORD_LAYOUT rl FNC_VALUES 1 UBYTE COLUMN_DIR DIRECT AXIS_PTS_X 2 UBYTE INDEX_INCR DIRECT /end RECORD_LAYOUT /begin TYPEDEF_AXIS ta \"\" NO_INPUT_QUANTITY rl 0 NO_COMPU_METHOD 2 0 1 /end TYPEDEF_AXIS /begin TYPEDEF_CHARACTERISTIC tc \"\" MAP rl 0 NO_COMPU_METHOD 0 1");
        for (x, curve) in &refs {
            if *curve {
                body.push_str(&format!(" /begin AXIS_DESCR CURVE_AXIS NO_INPUT_QUANTITY NO_COMPU_METHOD 2 0 1 CURVE_AXIS_REF THIS.{x} /end AXIS_DESCR"));
            } else {
                body.push_str(&format!(" /begin AXIS_DESCR COM_AXIS NO_INPUT_QUANTITY NO_COMPU_METHOD 2 0 1 AXIS_PTS_REF THIS.{x} /end AXIS_DESCR"));
            }
        }
        body.push_str(" /end TYPEDEF_CHARACTERISTIC");
        for (i, (contains, comps)) in structs.iter().enumerate() {
            body.push_str(&format!(" /begin TYPEDEF_STRUCTURE s{i} \"\" 16"));
            for (j, c) in comps.iter().enumerate() {
                body.push_str(&format!(" /begin STRUCTURE_COMPONENT {c} ta {j} /end STRUCTURE_COMPONENT"));
            }
            if *contains {
                body.push_str(" /begin STRUCTURE_COMPONENT self_tc tc 8 /end STRUCTURE_COMPONENT");
            }
            body.push_str(" /end TYPEDEF_STRUCTURE");
        }
        if direct {
            body.push_str(" /begin INSTANCE inst \"\" tc 0 /end INSTANCE");
        }
        for o in &this_objects {
            body.push_str(&format!(" /begin AXIS_PTS THIS.{o} \"\" 0 NO_INPUT_QUANTITY rl 0 NO_COMPU_METHOD 2 0 1 /end AXIS_PTS"));
        }
        let text = format!("ASAP2_VERSION 1 71 /begin PROJECT p \"\" /begin MODULE m \"\" {body} /end MODULE /end PROJECT");
        let input = hex(text.as_bytes());
        rep.case(&(k, &text), true);
        rep.bump("this-convention");
        let file = match crate::a2lgen::load(&text) {
            Ok(f) => f,
            Err(e) => {
                rep.fail("generator", input, e);
                continue;
            }
        };
        // reference reading of the convention
        let containing: Vec<&Vec<&str>> = structs.iter().filter(|s| s.0).map(|s| &s.1).collect();
        let mut want: Vec<String> = vec![];
        for (x, _) in &refs {
            if !direct && !containing.is_empty() {
                if !containing.iter().all(|comps| comps.contains(x)) {
                    want.push(x.to_string());
                }
            } else if !this_objects.contains(x) {
                want.push(format!("THIS.{x}"));
            }
        }
        want.sort();
        match catch(|| file.check()) {
            Err(p) => rep.fail("panic", input, p),
            Ok(errs) => {
                let x = xref_targets(&errs);
                if x != want {
                    rep.fail(if x.len() < want.len() { "incomplete" } else { "unsound" }, input.clone(), format!("THIS. convention: check() names {x:?}, expected {want:?} (directly used: {direct}, structures (contains typedef, components): {structs:?}, references {refs:?}, objects named THIS.*: {this_objects:?})"));
                }
                let enc = |v: &[&str]| if v.is_empty() { "-".to_string() } else { v.iter().map(|c| hex(c.as_bytes())).collect::<Vec<_>>().join("+") };
                let st = if structs.is_empty() { "-".to_string() } else { structs.iter().map(|(c, comps)| format!("{}:{}", u8::from(*c), enc(comps))).collect::<Vec<_>>().join(";") };
                let rf: Vec<&str> = refs.iter().map(|r| r.0).collect();
                rep.tie(format!("chkthis {} {} {} {}", u8::from(direct), enc(&this_objects), st, enc(&rf)), x.join(","));
            }
        }
    }
    // 2d. structural tie: every branch of checker.rs, ordered report list, exact limits (Model/Checker.lean)
    crate::c11full::run_family(&mut rep, &mut rng, if args.thorough { 24000 } else { 600 });
    // 3. totality on structurally odd files
    let odd = [
        "ASAP2_VERSION 1 71 /begin PROJECT p \"\" /begin MODULE m \"\" /end MODULE /end PROJECT".to_string(),
        format!("ASAP2_VERSION 1 71 /begin PROJECT p \"\" /begin MODULE m \"\" /begin RECORD_LAYOUT rl FNC_VALUES 1 UBYTE COLUMN_DIR DIRECT /end RECORD_LAYOUT /begin CHARACTERISTIC c \"\" CUBE_5 0 rl 0 NO_COMPU_METHOD 0 1 {} /end CHARACTERISTIC /end MODULE /end PROJECT", "/begin AXIS_DESCR STD_AXIS NO_INPUT_QUANTITY NO_COMPU_METHOD 1 0 1 /end AXIS_DESCR ".repeat(6)),
        format!("ASAP2_VERSION 1 71 /begin PROJECT p \"\" /begin MODULE m \"\" /begin CHARACTERISTIC c \"\" CURVE 0 norl 0 NO_COMPU_METHOD 0 1 {} /end CHARACTERISTIC /end MODULE /end PROJECT", "/begin AXIS_DESCR COM_AXIS NO_INPUT_QUANTITY NO_COMPU_METHOD 1 0 1 AXIS_PTS_REF THIS.x /end AXIS_DESCR ".repeat(7)),
        "ASAP2_VERSION 1 71 /begin PROJECT p \"\" /begin MODULE m \"\" /begin GROUP g \"\" ROOT /begin SUB_GROUP g g /end SUB_GROUP /begin REF_MEASUREMENT /end REF_MEASUREMENT /end GROUP /begin GROUP g \"\" /end GROUP /begin FUNCTION f \"\" /begin SUB_FUNCTION f /end SUB_FUNCTION /begin DEF_CHARACTERISTIC /end DEF_CHARACTERISTIC /end FUNCTION /end MODULE /end PROJECT".to_string(),
        "ASAP2_VERSION 1 71 /begin PROJECT p \"\" /begin MODULE m \"\" /begin MEASUREMENT x \"\" UBYTE NO_COMPU_METHOD 0 0 0 1 /end MEASUREMENT /begin MEASUREMENT x \"\" UBYTE NO_COMPU_METHOD 0 0 0 2 REF_MEMORY_SEGMENT seg /end MEASUREMENT /begin TYPEDEF_STRUCTURE ts \"\" 4 /begin STRUCTURE_COMPONENT a ts 0 /end STRUCTURE_COMPONENT /end TYPEDEF_STRUCTURE /begin INSTANCE i \"\" ts 0 /end INSTANCE /end MODULE /begin MODULE m2 \"\" /end MODULE /end PROJECT".to_string(),
    ];
    for t in odd.iter() {
        rep.case(t, true);
        rep.bump("odd-file");
        match crate::a2lgen::load(t) {
            Err(e) => rep.fail("generator", hex(t.as_bytes()), e),
            Ok(f) => {
                let before = f.write_to_string();
                match catch(|| f.check()) {
                    Err(p) => rep.fail("panic", hex(t.as_bytes()), p),
                    Ok(_) => {
                        if f.write_to_string() != before {
                            rep.fail("impure", hex(t.as_bytes()), "check() modified the model".into());
                        }
                        crate::c11full::tie_file(&mut rep, &f, true, &hex(t.as_bytes()));
                    }
                }
            }
        }
    }
    if probe_mode {
        let mut lines = vec!["# sites at which check() diagnoses a missing target (probed on the pinned tree + fix commits)".to_string()];
        for (s, (n, r)) in &site_seen {
            eprintln!("{s}: corrupted {n}, reported {r}");
            if *n > 0 && n == r {
                lines.push(s.clone());
            }
        }
        let _ = std::fs::write("reference/checked_sites.txt", lines.join("\n") + "\n");
    }
    rep
}

/// request for the Lean graph model: definitions per namespace, references with coverage flag
pub fn graph_request(g: &Graph, covered: &[String]) -> String {
    let defs: Vec<String> = g.defs.iter().flat_map(|(ns, m)| m.keys().map(move |k| format!("{}:{}", *ns as u8, hex(k.as_bytes())))).collect();
    let refs: Vec<String> = g.refs.iter().map(|(ns, r)| format!("{}:{}:{}", *ns as u8, u8::from(covered.contains(&format!("{}@{}", r.site, r.owner.0))), hex(r.target.as_bytes()))).collect();
    format!("{} {}", if defs.is_empty() { "-".to_string() } else { defs.join(",") }, if refs.is_empty() { "-".to_string() } else { refs.join(",") })
}
