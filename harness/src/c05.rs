//! C05: layout preservation and edit locality. Oracle on the real code:
//!  (a) every significant token of a canonical-order document is written on the line it had in the input,
//!  (b) text in the writer's own format is reproduced byte for byte,
//!  (c) changing / adding / removing one object through the API changes only the lines of that object.
use crate::common::*;
use crate::docgen::*;
use crate::tree::*;
use a2lfile::A2lObjectName;

fn sig_lines(text: &str) -> Option<Vec<(u8, u32)>> {
    let toks = catch(|| a2lfile::verif_hooks::tokenize_dump(text)).ok()?.ok()?;
    Some(toks.iter().filter(|t| t.0 != 6).map(|t| (t.0, t.3)).collect())
}

/// common prefix / suffix (in lines) of two texts: returns the differing middle ranges (1-based, inclusive start, exclusive end)
fn diff_region(a: &str, b: &str) -> ((usize, usize), (usize, usize)) {
    let la: Vec<&str> = a.split('\n').collect();
    let lb: Vec<&str> = b.split('\n').collect();
    let mut p = 0;
    while p < la.len() && p < lb.len() && la[p] == lb[p] {
        p += 1;
    }
    let mut s = 0;
    while s < la.len() - p && s < lb.len() - p && la[la.len() - 1 - s] == lb[lb.len() - 1 - s] {
        s += 1;
    }
    ((p + 1, la.len() - s + 1), (p + 1, lb.len() - s + 1))
}

/// line range [first, last] of the block `/begin TAG name ... /end TAG` in `text`, including its leading blank lines
fn object_lines(text: &str, tag: &str, name: &str) -> Option<(usize, usize)> {
    let toks = a2lfile::verif_hooks::tokenize_dump(text).ok()?;
    let tx = |t: &(u8, usize, usize, u32)| &text[t.1..t.2];
    for i in 0..toks.len().saturating_sub(2) {
        if toks[i].0 == 1 && tx(&toks[i + 1]) == tag && tx(&toks[i + 2]) == name {
            // a (multi-line) comment token carries its first line: the object starts after its last line
            let prev_line = if i > 0 { toks[i - 1].3 as usize + tx(&toks[i - 1]).matches('\n').count() * usize::from(toks[i - 1].0 == 6) } else { 0 };
            let mut depth = 0i32;
            for j in i..toks.len() {
                if toks[j].0 == 1 {
                    depth += 1;
                }
                if toks[j].0 == 2 {
                    depth -= 1;
                    if depth == 0 {
                        return Some((prev_line + 1, toks.get(j + 1).map_or(toks[j].3, |t| t.3) as usize));
                    }
                }
            }
        }
    }
    None
}

pub fn run(args: &Args) -> Report {
    let mut rep = Report::new(
        "C05",
        "documents generated from the grammar in canonical element order (position-restricted items ascending) with canonical layout (/begin and /end on the line of their tag), random blank lines, both comment kinds between block-level elements incl. multi-line block comments, no raw line breaks in strings; (a) line of every significant token in vs out, (b) own-format fixpoint, (c) single edits through the API: field change, added optional child, pushed new object, removed object. non-trivial = accepted document with >= 20 tokens / every edit; distinct = distinct (text, edit)",
    );
    let g = match Grammar::load() {
        Ok(g) => g,
        Err(e) => {
            rep.fail("infrastructure", String::new(), e);
            return rep;
        }
    };
    let mut rng = Rng::new(args.seed);
    let n = if args.thorough { 20000 } else { 1200 };
    let mut texts: Vec<String> = vec![];
    if let Some(input) = &args.replay {
        texts.push(String::from_utf8_lossy(&unhex(input.split_whitespace().next().unwrap_or("-"))).into_owned());
    } else {
        for i in 0..n {
            let mut toks = gen_document_canonical(&g, &mut rng, GenOpts { opt_prob: [15, 35, 60][i % 3], specials: i % 4 == 1, ..GenOpts::default() });
            // multi-line block comments between block-level elements
            for t in toks.iter_mut() {
                if t.role == Role::Comment && t.text.starts_with("/*") && rng.chance(1, 3) {
                    t.text = format!("/* first line\n   second line\n   {} */", t.text.len());
                }
            }
            // a third of the documents with arbitrary line breaks between tokens (several elements may share a line)
            texts.push(render(&toks, &mut rng, if i % 3 == 2 { Layout::Loose } else { Layout::Canonical }, i % 9 == 4));
        }
    }
    if args.replay.is_none() {
        // hand-kept: the tail of a multi-line block comment that contains // or a quote, with the /end on the same line
        for body in ["  /* a\n   // b */ /end MEASUREMENT", "  /* a\n   \" */ READ_WRITE /end MEASUREMENT", "  /* x */ /* a\n // b */ READ_WRITE /end MEASUREMENT"] {
            texts.push(format!("ASAP2_VERSION 1 71\n/begin PROJECT p \"\"\n  /begin MODULE m \"\"\n    /begin MEASUREMENT x \"\" UBYTE NO_COMPU_METHOD 0 0 0 1\n{body}\n    /begin MEASUREMENT y \"\" UBYTE NO_COMPU_METHOD 0 0 0 1\n    /end MEASUREMENT\n  /end MODULE\n/end PROJECT\n"));
        }
    }
    for (i, text) in texts.iter().enumerate() {
        let strict = i % 2 == 0;
        let (file, lenient_ident) = match load(text, strict) {
            // (non-strict reading of IF_DATA accepts an identifier where the A2ML definition has a string, with a
            //  diagnostic, and writes it back quoted: the token stays on its line but changes its kind)
            Loaded::Ok(f, l) => {
                let len = log_text(&l).contains("UnexpectedTokenType");
                (f, len)
            }
            Loaded::Panic(p) => {
                rep.fail("panic", hex(text.as_bytes()), p);
                continue;
            }
            Loaded::Err(_) => {
                rep.case(text, false);
                rep.bump("rejected");
                continue;
            }
        };
        rep.case(text, text.split_whitespace().count() >= 20);
        let input = hex(text.as_bytes());
        let w = file.write_to_string();
        // (a) same lines
        match (sig_lines(text), sig_lines(&w)) {
            (Some(a), Some(b)) => {
                if a.len() != b.len() {
                    rep.fail("token-count", input.clone(), format!("{} significant tokens in, {} out", a.len(), b.len()));
                } else if let Some(k) = (0..a.len()).find(|&k| a[k] != b[k] && !(lenient_ident && a[k].1 == b[k].1 && a[k].0 == 0 && b[k].0 == 4)) {
                    rep.fail("line-shift", input.clone(), format!("significant token #{k} (kind {}) is on line {} in the input and on line {} in the output", a[k].0, a[k].1, b[k].1));
                }
            }
            _ => rep.fail("retokenize", input.clone(), "written text does not tokenize".into()),
        }
        // (b) own format is reproduced byte for byte
        match load(&w, false) {
            Loaded::Ok(f2, _) => {
                let w2 = f2.write_to_string();
                if w2 != w {
                    let (a, b) = crate::c01::first_diff(&w, &w2);
                    rep.fail("own-format", input.clone(), format!("text in the writer's own format is not reproduced: line {a}: {b}"));
                }
                // (c) edits on the reloaded own-format model
                // (the line bookkeeping of the edit oracle needs one element per line: canonical layout only)
                if i % 2 == 0 && (i % 3 != 2 || args.replay.is_some()) {
                    edits(&mut rep, &f2, &w, &input, &mut rng);
                }
            }
            _ => rep.fail("own-format", input.clone(), "written text does not load".into()),
        }
        if i % 401 == 0 {
            rep.sample(text.chars().take(200).collect());
        }
        if i % 4 == 0 {
            if let Some((req, ans)) = tie_case(text, strict) {
                rep.tie(req, ans);
            }
        }
    }
    rep
}

fn edits(rep: &mut Report, base: &a2lfile::A2lFile, wbase: &str, input: &str, rng: &mut Rng) {
    use a2lfile::*;
    if base.project.module.is_empty() {
        return;
    }
    let mi = rng.below(base.project.module.len());
    let names: Vec<String> = base.project.module[mi].measurement.iter().map(|m| m.get_name().to_string()).collect();
    // 1. field change / added child / removal of an existing MEASUREMENT
    if !names.is_empty() {
        let name = names[rng.below(names.len())].clone();
        let Some((first, last)) = object_lines(wbase, "MEASUREMENT", &name) else { return };
        for kind in 0..4 {
            let mut f = base.clone();
            let m = f.project.module[mi].measurement.get_mut(&name).unwrap();
            let what = match kind {
                0 => {
                    m.long_identifier = "edited description".to_string();
                    "field-string"
                }
                1 => {
                    m.upper_limit += 1.0;
                    m.resolution = m.resolution.wrapping_add(1);
                    "field-numbers"
                }
                2 => {
                    if m.ecu_address.is_some() {
                        continue;
                    }
                    m.ecu_address = Some(EcuAddress::new(0x1234));
                    "add-child"
                }
                _ => {
                    f.project.module[mi].measurement.retain(|x| x.get_name() != name);
                    "remove"
                }
            };
            let w = f.write_to_string();
            rep.case(&(input, what, &name), true);
            rep.bump(&format!("edit:{what}"));
            // everything outside the object's own lines (first..=last of the original) must be unchanged
            let la: Vec<&str> = wbase.split('\n').collect();
            let lb: Vec<&str> = w.split('\n').collect();
            let tail = la.len() - last;
            let head_same = lb.len() >= first - 1 && la[..first - 1] == lb[..first - 1];
            let tail_same = lb.len() >= tail + (first - 1) && la[last..] == lb[lb.len() - tail..];
            if !(head_same && tail_same) {
                let ((a0, a1), _) = diff_region(wbase, &w);
                rep.fail("edit-not-local", format!("{input} {what} {}", hex(name.as_bytes())), format!("{what} of MEASUREMENT {name} (its lines {first}..{last}) changed lines outside the object (first differing original lines {a0}..{})", a1.saturating_sub(1)));
            }
            if what == "remove" && lb.len() != la.len() - (last - first + 1) {
                rep.fail("edit-not-local", format!("{input} {what} {}", hex(name.as_bytes())), format!("removing MEASUREMENT {name} removed {} lines, the object has {}", la.len() as i64 - lb.len() as i64, last - first + 1));
            }
            if what != "remove" && w == wbase {
                rep.fail("edit-lost", format!("{input} {what} {}", hex(name.as_bytes())), "the edit is not visible in the output".into());
            }
        }
    }
    // 2. push a new object: pure insertion
    let mut f = base.clone();
    f.project.module[mi].measurement.push(Measurement::new("verif_new_object".into(), "".into(), DataType::Ubyte, "NO_COMPU_METHOD".into(), 1, 1.0, 0.0, 255.0));
    let w = f.write_to_string();
    rep.case(&(input, "push"), true);
    rep.bump("edit:push");
    let ((a0, a1), (b0, b1)) = diff_region(wbase, &w);
    let inserted: Vec<&str> = w.split('\n').collect::<Vec<_>>()[b0 - 1..b1 - 1].to_vec();
    if a0 < a1 {
        rep.fail("edit-not-local", format!("{input} push"), format!("pushing a new MEASUREMENT changed original lines {a0}..{}", a1 - 1));
    } else if !inserted.iter().any(|l| l.contains("verif_new_object")) || inserted.iter().any(|l| l.contains("/begin") && !l.contains("verif_new_object")) {
        rep.fail("edit-not-local", format!("{input} push"), format!("inserted lines are not exactly the new object: {inserted:?}"));
    }
    // 3. the same on a model that already holds some dozens of objects created through the API (they all have uid 0 and
    //    line 0: their order in the output rests on the order of the list alone)
    let mut f = base.clone();
    let nprev = 22 + rng.below(30);
    for k in 0..nprev {
        f.project.module[mi].measurement.push(Measurement::new(format!("verif_prev_{k:02}"), "".into(), DataType::Ubyte, "NO_COMPU_METHOD".into(), 1, 1.0, 0.0, 255.0));
    }
    let w0 = f.write_to_string();
    f.project.module[mi].measurement.push(Measurement::new("verif_new_object".into(), "".into(), DataType::Ubyte, "NO_COMPU_METHOD".into(), 1, 1.0, 0.0, 255.0));
    let w = f.write_to_string();
    rep.case(&(input, "push-after-pushes", nprev), true);
    rep.bump("edit:push-after-pushes");
    let ((a0, a1), (b0, b1)) = diff_region(&w0, &w);
    let inserted: Vec<&str> = w.split('\n').collect::<Vec<_>>()[b0 - 1..b1 - 1].to_vec();
    if a0 < a1 {
        rep.fail("edit-not-local", format!("{input} push-after-pushes"), format!("pushing one more MEASUREMENT behind {nprev} pushed ones changed lines {a0}..{} that belong to other objects", a1 - 1));
    } else if !inserted.iter().any(|l| l.contains("verif_new_object")) || inserted.iter().any(|l| l.contains("/begin") && !l.contains("verif_new_object")) {
        rep.fail("edit-not-local", format!("{input} push-after-pushes"), format!("inserted lines are not exactly the new object: {inserted:?}"));
    }
}
