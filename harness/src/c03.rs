//! C03: loading never panics, overflows or hangs. Every case is run under catch_unwind with overflow checks on; the
//! case about to run is written to `<out>/current.txt` first, so that a hang (watchdog kill by ./check) or an abort
//! (stack overflow) is attributed to its input. Tie: outcome classes of the whole loader vs the Lean model
//! (`a2l` requests) and the token dump vs the Lex model (`lex` requests).
use crate::c03lex::{lex_answer, lex_inputs};
use crate::common::*;
use crate::docgen::*;
use crate::tree::*;
use std::io::Write;

const SPEC_VALID: &str = r#"block "IF_DATA" taggedunion { "X" struct { int; }; "Y" taggedstruct { "A" uint; ("B" struct { char[8]; float; })*; block "C" long; }; };"#;
const SPEC_INVALID: &str = r#"block "IF_DATA" taggedunion { "X" struct { int; "#;

fn run_one(text: &str, strict: bool, spec: usize, entry: usize, tmp: &std::path::Path) -> Result<&'static str, String> {
    let spec_s = match spec {
        0 => None,
        1 => Some(SPEC_VALID.to_string()),
        // the invalid built-in specification: the (malformed) A2ML text of the input itself when it has one
        _ => Some(match (text.find("/begin A2ML"), text.find("/end A2ML")) {
            (Some(a), Some(b)) if a + 11 < b => text[a + 11..b].to_string(),
            _ => SPEC_INVALID.to_string(),
        }),
    };
    let r = catch(|| match entry {
        0 => match a2lfile::load_from_string(text, spec_s, strict) {
            Ok((f, _)) => {
                // a loaded model must also be writable and checkable without panic
                let _ = f.write_to_string();
                "ok"
            }
            Err(_) => "err",
        },
        1 => match a2lfile::load_fragment(text, spec_s) {
            Ok(_) => "ok",
            Err(_) => "err",
        },
        _ => {
            let p = tmp.join("in.a2l");
            std::fs::write(&p, text.as_bytes()).unwrap();
            match a2lfile::load(&p, spec_s, strict) {
                Ok(_) => "ok",
                Err(_) => "err",
            }
        }
    });
    r
}

pub const NEST_KINDS: [&str; 8] = ["nest-ifdata", "nest-a2ml", "chain-a2ml", "dims-a2ml", "seq-a2ml", "tagged-a2ml", "typed-ifdata", "nest-unknown"];

/// deeply nested structures: blocks in uninterpreted IF_DATA, A2ML types nested directly / through a chain of named
/// types / through array dimensions / through ( )* and tagged members, IF_DATA content interpreted with a nested
/// definition, unknown A2L blocks
pub fn nest_text(kind: &str, depth: usize) -> String {
    let head = "ASAP2_VERSION 1 71 /begin PROJECT p \"\" /begin MODULE m \"\" ";
    let tail = "/end MODULE /end PROJECT";
    match kind {
        "nest-ifdata" => format!("{head}/begin IF_DATA x {}{}/end IF_DATA {tail}", "/begin a ".repeat(depth), "/end a ".repeat(depth)),
        "nest-a2ml" => format!("{head}/begin A2ML block \"IF_DATA\" {}int; {}/end A2ML /begin IF_DATA 5 /end IF_DATA {tail}", "struct { ".repeat(depth), "}; ".repeat(depth)),
        "chain-a2ml" => {
            let mut defs = String::from("struct S0 { int; }; ");
            for k in 1..=depth {
                defs.push_str(&format!("struct S{k} {{ struct S{}; }}; ", k - 1));
            }
            format!("{head}/begin A2ML {defs}block \"IF_DATA\" struct S{depth}; /end A2ML /begin IF_DATA 5 /end IF_DATA {tail}")
        }
        // every definition refers twice to the one before: the expanded type doubles with each line
        "laughs-a2ml" => {
            let mut defs = String::from("struct S0 { int; }; ");
            for k in 1..=depth {
                defs.push_str(&format!("struct S{k} {{ struct S{}; struct S{}; }}; ", k - 1, k - 1));
            }
            format!("{head}/begin A2ML {defs}block \"IF_DATA\" struct S{depth}; /end A2ML /begin IF_DATA 5 /end IF_DATA {tail}")
        }
        "dims-a2ml" => format!("{head}/begin A2ML block \"IF_DATA\" struct {{ int{}; }}; /end A2ML /begin IF_DATA 5 /end IF_DATA {tail}", "[1]".repeat(depth)),
        "seq-a2ml" => format!("{head}/begin A2ML block \"IF_DATA\" {}int; {}/end A2ML /begin IF_DATA T 5 /end IF_DATA {tail}", "taggedstruct { \"T\" ( ".repeat(depth), ")*; }; ".repeat(depth)),
        "tagged-a2ml" => format!("{head}/begin A2ML block \"IF_DATA\" {}int; {}/end A2ML /begin IF_DATA 5 /end IF_DATA {tail}", "taggedunion { block \"B\" ".repeat(depth), "}; ".repeat(depth)),
        "typed-ifdata" => format!("{head}/begin A2ML block \"IF_DATA\" {}int; {}/end A2ML /begin IF_DATA {}5 {}/end IF_DATA {tail}", "taggedunion { block \"B\" ".repeat(depth.min(60)), "}; ".repeat(depth.min(60)), "/begin B ".repeat(depth), "/end B ".repeat(depth)),
        _ => format!("{head}{}{}{tail}", "/begin UNKNOWN ".repeat(depth), "/end UNKNOWN ".repeat(depth)),
    }
}

pub fn run(args: &Args) -> Report {
    let mut rep = Report::new(
        "C03",
        "token soups over the lexical alphabet, byte noise, generated documents, every k-th prefix and single-token mutations of documents, hand-kept corner cases (former panics), nested-structure stress (8 shapes, depth 3 .. 200000, dense around the nesting limit of 100) x strict x a2ml_spec {none, valid, invalid} x entry {load_from_string, load_fragment, load(file)}; outcome must be ok or an error value. non-trivial = non-blank input; distinct = distinct (text, configuration)",
    );
    let mut rng = Rng::new(args.seed);
    let tmp = std::env::temp_dir().join(format!("a2lverif_c03_{}", std::process::id()));
    let _ = std::fs::create_dir_all(&tmp);
    let _ = std::fs::create_dir_all(&args.out);
    let current = format!("{}/current.txt", args.out);
    let mut inputs: Vec<(String, &'static str)> = if let Some(input) = &args.replay {
        let last = input.split_whitespace().last().unwrap_or("-");
        if let Some(spec) = last.strip_prefix("gen:") {
            // generated witness, e.g. gen:nest-ifdata:20000 (too long for a command line as hex)
            let p: Vec<&str> = spec.split(':').collect();
            let depth: usize = p.get(1).and_then(|x| x.parse().ok()).unwrap_or(10);
            let text = nest_text(p[0], depth);
            vec![(text, "replay-generated")]
        } else {
            vec![(String::from_utf8_lossy(&unhex(last)).into_owned(), "replay")]
        }
    } else {
        lex_inputs(&mut rng, args.thorough)
    };
    let mut gen_names: std::collections::HashMap<usize, String> = std::collections::HashMap::new();
    if args.replay.is_none() {
        if let Ok(g) = Grammar::load() {
            let ndocs = if args.thorough { 300 } else { 40 };
            for d in 0..ndocs {
                let toks = gen_document(&g, &mut rng, GenOpts { opt_prob: 25, specials: true, ..GenOpts::default() });
                let text = render(&toks, &mut rng, [Layout::Canonical, Layout::Wild][d % 2], d % 5 == 0);
                let step = if args.thorough { 7 } else { (text.len() / 40).max(1) };
                for p in crate::soup::prefixes(&text, step) {
                    inputs.push((p, "doc-prefix"));
                }
                for m in crate::soup::token_mutations(&text, &mut rng, 40) {
                    inputs.push((m, "doc-mutation"));
                }
                inputs.push((text, "document"));
            }
        }
        // structure stress around and far beyond the nesting limits of the A2ML parser and of the IF_DATA parsers
        // (unlimited recursion overflowed the stack at about 10000 levels)
        let mut depths = vec![3usize, 10, 48, 49, 50, 51, 97, 98, 99, 100, 101, 102, 200];
        depths.extend(if args.thorough { vec![1000, 3000, 30000, 200000] } else { vec![30000] });
        for depth in depths {
            for kind in NEST_KINDS {
                gen_names.insert(inputs.len(), format!("gen:{kind}:{depth}"));
                inputs.push((nest_text(kind, depth), "nesting"));
            }
        }
        // malformed A2ML definitions with multi-byte characters at every alignment (error texts are cut out of the
        // input by byte position)
        for d in 0..(if args.thorough { 1500 } else { 150 }) {
            let case = crate::a2mlgen::gen_a2ml(&mut rng, 1 + d % 3);
            let mut words: Vec<String> = case.a2ml.split(' ').map(|w| w.to_string()).collect();
            let i = rng.below(words.len());
            match rng.below(3) {
                0 => {
                    words.remove(i);
                }
                1 => words[i] = ["{", "}", ";", "(", ")*", "\"x", "struct", "[", "=", "/*", "@", "\u{e4}"][rng.below(12)].to_string(),
                _ => words.truncate(i.max(1)),
            }
            let bad = words.join(" ");
            let mut out = String::new();
            for (k, c) in bad.chars().enumerate() {
                out.push(c);
                if k + 24 >= bad.chars().count().saturating_sub(rng.below(60)) || rng.chance(1, 9) {
                    if rng.chance(1, 3) {
                        out.push(['\u{e4}', '\u{a7}', '\u{20ac}', '\u{1f600}'][rng.below(4)]);
                    }
                }
            }
            for _ in 0..rng.below(4) {
                out.push(['\u{e4}', '\u{20ac}', 'x', ' '][rng.below(4)]);
            }
            inputs.push((format!("ASAP2_VERSION 1 71 /begin PROJECT p \"\" /begin MODULE m \"\" /begin A2ML {out} /end A2ML /begin IF_DATA X 1 /end IF_DATA /end MODULE /end PROJECT"), "a2ml-multibyte"));
        }
        // A2ML / IF_DATA corner cases (several were panics or hangs on the pinned tree)
        for s in [
            "ASAP2_VERSION 1 71 /begin PROJECT p \"\" /begin MODULE m \"\" /begin A2ML \" /end A2ML /end MODULE /end PROJECT",
            "ASAP2_VERSION 1 71 /begin PROJECT p \"\" /begin MODULE m \"\" /begin IF_DATA /begin A2ML\"/end A2ML /end IF_DATA /end MODULE /end PROJECT",
            "ASAP2_VERSION 1 71 /begin PROJECT p \"\" /begin MODULE m \"\" /begin A2ML block \"IF_DATA\" (taggedstruct {\"X\" uint;})*; /end A2ML /begin IF_DATA X 1 /end IF_DATA /end MODULE /end PROJECT",
            "ASAP2_VERSION 1 71 /begin PROJECT p \"\" /begin MODULE m \"\" /begin A2ML block \"IF_DATA\" (struct { })*; /end A2ML /begin IF_DATA 1 /end IF_DATA /end MODULE /end PROJECT",
            "ASAP2_VERSION 1 71 /begin PROJECT p \"\" /begin MODULE m \"\" /begin A2ML block \"IF_DATA\" taggedunion { \"X\" uint[0]; }; /end A2ML /begin IF_DATA X /end IF_DATA /end MODULE /end PROJECT",
            "ASAP2_VERSION 1 71 /begin PROJECT p \"\" /begin MODULE m \"\" /begin A2ML block \"IF_DATA\" enum { \"a\" = 1, \"b\" }; /end A2ML /begin IF_DATA a /end IF_DATA /begin IF_DATA c /end IF_DATA /end MODULE /end PROJECT",
            "ASAP2_VERSION 1 71 /begin PROJECT p \"\" /begin MODULE m \"\" /begin A2ML struct s { int; }; block \"IF_DATA\" struct s; /end A2ML /begin IF_DATA 99999999999 /end IF_DATA /end MODULE /end PROJECT",
            "/begin A2ML", "/begin A2ML \"", "/begin A2ML /* ", "/begin A2ML // x",
            // comments inside IF_DATA content (interpreted and uninterpreted), zero-width array elements with a huge
            // dimension, float literals beyond the range of the field
            "ASAP2_VERSION 1 71 /begin PROJECT p \"\" /begin MODULE m \"\" /begin IF_DATA X 1 /begin A 2 /end A /* c */ /begin B 3 /end B /* d */ /end IF_DATA /end MODULE /end PROJECT",
            "ASAP2_VERSION 1 71 /begin PROJECT p \"\" /begin MODULE m \"\" /begin A2ML block \"IF_DATA\" taggedunion { \"X\" struct { uint; char[10]; }; }; /end A2ML /begin IF_DATA /* a */ X /* b */ 1 \"a\" /* c */ /end IF_DATA /end MODULE /end PROJECT",
            "ASAP2_VERSION 1 71 /begin PROJECT p \"\" /begin MODULE m \"\" /begin A2ML block \"IF_DATA\" taggedunion { \"Y\" taggedunion { \"Z\" uint; }[2147483647]; }; /end A2ML /begin IF_DATA Y /end IF_DATA /begin IF_DATA Y Z 1 /end IF_DATA /end MODULE /end PROJECT",
            "ASAP2_VERSION 1 71 /begin PROJECT p \"\" /begin MODULE m \"\" /begin A2ML block \"IF_DATA\" struct { taggedstruct { }[2147483647]; (struct { })*; uint; }; /end A2ML /begin IF_DATA 1 /end IF_DATA /end MODULE /end PROJECT",
            "ASAP2_VERSION 1 71 /begin PROJECT p \"\" /begin MODULE m \"\" /begin A2ML block \"IF_DATA\" taggedunion { \"F\" float; \"D\" double; }; /end A2ML /begin IF_DATA F 1e300 /end IF_DATA /begin IF_DATA D 1e999 /end IF_DATA /begin IF_DATA Q 1e999 -1e999 /end IF_DATA /end MODULE /end PROJECT",
            "ASAP2_VERSION 1 71 /begin PROJECT p \"\" /begin MODULE m \"\" /begin MEASUREMENT x \"\" UBYTE NO_COMPU_METHOD 0 0 -1e999 1e999 /end MEASUREMENT /end MODULE /end PROJECT",
        ] {
            inputs.push((s.to_string(), "a2ml-corner"));
        }
    }
    let mut f = std::fs::File::create(&current).ok();
    for (i, (text, family)) in inputs.iter().enumerate() {
        rep.bump(family);
        // lexer tie
        if i % 2 == 0 || *family == "corner" || *family == "a2ml-corner" {
            rep.tie(format!("lex {}", hex(text.as_bytes())), lex_answer(text));
        }
        // configurations: all 18 for a sample, a rotating subset otherwise
        let configs: Vec<(bool, usize, usize)> = if *family == "a2ml-multibyte" {
            vec![(i % 2 == 0, 0, 0), (i % 2 == 1, 2, i % 3)]
        } else if i % 9 == 0 || family.ends_with("corner") || *family == "nesting" {
            (0..18).map(|k| (k % 2 == 0, (k / 2) % 3, k / 6)).collect()
        } else {
            vec![(i % 2 == 0, (i / 2) % 3, if i % 11 == 0 { 2 } else { (i / 6) % 2 })]
        };
        for (strict, spec, entry) in configs {
            if let Some(f) = f.as_mut() {
                use std::io::Seek;
                let _ = f.set_len(0);
                let _ = f.seek(std::io::SeekFrom::Start(0));
                let shown = if let Some(g) = gen_names.get(&i) {
                    g.clone()
                } else if text.len() > 60000 {
                    format!("<{} bytes, family {family}: {}>", text.len(), args.replay.clone().unwrap_or_default())
                } else {
                    hex(text.as_bytes())
                };
                let _ = writeln!(f, "{} {} {} {}", u8::from(strict), spec, entry, shown);
                let _ = f.flush();
            }
            let r = run_one(text, strict, spec, entry, &tmp);
            rep.case(&(text, strict, spec, entry), !text.trim().is_empty());
            match r {
                Ok(o) => rep.bump(&format!("outcome:{o}")),
                Err(p) => {
                    rep.bump("outcome:panic");
                    rep.fail("panic", format!("{} {} {} {}", u8::from(strict), spec, entry, gen_names.get(&i).cloned().unwrap_or_else(|| hex(text.as_bytes()))), format!("panic: {p} (strict={strict}, a2ml_spec={}, entry={})", ["none", "valid", "invalid"][spec], ["load_from_string", "load_fragment", "load(file)"][entry]));
                }
            }
        }
        // element-level tie on a sample (spec = none, load_from_string)
        // (documents with A2ML / IF_DATA included since the special parsers are modelled; corner cases in both modes;
        //  very long inputs are left to the lexer tie)
        if (i % 5 == 0 || family.ends_with("corner") || *family == "a2ml-multibyte" || *family == "nesting") && text.len() < 40000 {
            for strict in if family.ends_with("corner") || *family == "nesting" { vec![false, true] } else { vec![i % 2 == 0] } {
                if let Some((req, ans)) = tie_case(text, strict) {
                    rep.tie(req, ans);
                }
            }
        }
        if i % 1499 == 0 {
            rep.sample(text.chars().take(120).collect());
        }
    }
    let _ = std::fs::remove_dir_all(&tmp);
    let _ = std::fs::remove_file(&current);
    rep
}
