//! grammar-based generator of A2ML definitions with conforming IF_DATA instances (generator (e) of DESIGN.md)
use crate::common::*;

#[derive(Clone, Debug)]
pub enum T {
    Scalar(&'static str), // char int long int64 uchar uint ulong uint64 float double
    CharArr(usize),
    Arr(Box<T>, usize),
    Enum(Vec<(String, Option<i32>)>),
    Struct(Vec<T>),
    TaggedStruct(Vec<Tagged>),
    TaggedUnion(Vec<Tagged>),
}

#[derive(Clone, Debug)]
pub struct Tagged {
    pub tag: String,
    pub item: Option<T>,
    pub seq: bool,    // "TAG" (member)*
    pub is_block: bool,
    pub repeat: bool, // ("TAG" member)*   -- taggedstruct only
}

/// can an instance of this type end in a greedy sequence (so that what follows could be taken as one more element)?
pub fn tail_open(t: &T) -> bool {
    match t {
        T::Scalar(_) | T::CharArr(_) | T::Enum(_) => false,
        T::Arr(of, _) => tail_open(of),
        T::Struct(items) => items.last().map_or(false, tail_open),
        T::TaggedStruct(items) | T::TaggedUnion(items) => items.iter().any(|it| !it.is_block && (it.seq || it.item.as_ref().map_or(false, tail_open))),
    }
}

pub struct A2mlGen<'a> {
    pub rng: &'a mut Rng,
    n: usize,
    /// named type definitions emitted before the IF_DATA block: (kind keyword, name, body text)
    pub named: Vec<(String, String, String)>,
}

const SCALARS: [&str; 10] = ["char", "int", "long", "int64", "uchar", "uint", "ulong", "uint64", "float", "double"];

impl<'a> A2mlGen<'a> {
    pub fn new(rng: &'a mut Rng) -> Self {
        A2mlGen { rng, n: 0, named: vec![] }
    }
    fn name(&mut self, p: &str) -> String {
        self.n += 1;
        format!("{p}{}", self.n)
    }
    pub fn gen_type(&mut self, depth: usize) -> T {
        let k = if depth == 0 { self.rng.below(4) } else { self.rng.below(10) };
        match k {
            0 | 1 => T::Scalar(SCALARS[self.rng.below(10)]),
            2 => T::CharArr(4 + self.rng.below(20)),
            3 => T::Enum((0..1 + self.rng.below(4)).map(|i| (self.name("EN_"), if self.rng.chance(1, 2) { Some(i as i32 * 3 + 1) } else { None })).collect()),
            // (an array of `char` is a string in A2ML: generated as CharArr)
            4 => T::Arr(Box::new(T::Scalar(SCALARS[1 + self.rng.below(9)])), 1 + self.rng.below(3)),
            5 | 6 => {
                // a member whose instance can end in a greedy sequence is followed by a string member: a number or
                // identifier there would be read as one more element of the sequence
                let mut items: Vec<T> = vec![];
                for _ in 0..1 + self.rng.below(4) {
                    let next = if items.last().map_or(false, tail_open) { T::CharArr(4 + self.rng.below(20)) } else { self.gen_type(depth - 1) };
                    items.push(next);
                }
                T::Struct(items)
            }
            7 | 8 => T::TaggedStruct((0..1 + self.rng.below(4)).map(|_| self.gen_tagged(depth - 1, true)).collect()),
            _ => T::TaggedUnion((0..1 + self.rng.below(3)).map(|_| self.gen_tagged(depth - 1, false)).collect()),
        }
    }
    fn gen_tagged(&mut self, depth: usize, allow_repeat: bool) -> Tagged {
        let item = if self.rng.chance(1, 6) { None } else { Some(self.gen_type(depth)) };
        // a sequence whose element starts with a string would, in non-strict mode, also accept a following keyword tag
        // as a string (identifier in place of a string is a recoverable problem): such definitions are ambiguous for
        // the lenient reader and are not generated
        fn starts_with_number_or_enum(t: &T) -> bool {
            match t {
                T::Scalar(_) | T::Enum(_) => true,
                T::Arr(of, _) => starts_with_number_or_enum(of),
                T::Struct(items) => items.first().map_or(false, starts_with_number_or_enum),
                _ => false,
            }
        }
        let seq = item.as_ref().map_or(false, |t| starts_with_number_or_enum(t) && !tail_open(t)) && self.rng.chance(1, 4);
        Tagged { tag: self.name("TAG_"), seq, item, is_block: self.rng.chance(1, 2), repeat: allow_repeat && self.rng.chance(1, 3) }
    }

    /// A2ML text of a type; complex types are sometimes emitted as a named definition and referenced
    pub fn render(&mut self, t: &T) -> String {
        match t {
            T::Scalar(s) => s.to_string(),
            T::CharArr(n) => format!("char[{n}]"),
            T::Arr(of, n) => format!("{}[{n}]", self.render(of)),
            T::Enum(items) => {
                let body = format!("{{ {} }}", items.iter().map(|(n, v)| match v { Some(v) => format!("\"{n}\" = {v}"), None => format!("\"{n}\"") }).collect::<Vec<_>>().join(", "));
                self.maybe_named("enum", body)
            }
            T::Struct(items) => {
                let mut body = String::from("{ ");
                for it in items {
                    body.push_str(&self.render(it));
                    body.push_str("; ");
                }
                body.push('}');
                self.maybe_named("struct", body)
            }
            T::TaggedStruct(items) => {
                let body = self.render_tagged(items);
                self.maybe_named("taggedstruct", body)
            }
            T::TaggedUnion(items) => {
                let body = self.render_tagged(items);
                self.maybe_named("taggedunion", body)
            }
        }
    }
    fn render_tagged(&mut self, items: &[Tagged]) -> String {
        let mut body = String::from("{ ");
        for it in items {
            let mut s = String::new();
            if it.is_block {
                s.push_str("block ");
            }
            s.push_str(&format!("\"{}\"", it.tag));
            if let Some(t) = &it.item {
                let inner = self.render(t);
                if it.seq { s.push_str(&format!(" ({inner})*")) } else { s.push_str(&format!(" {inner}")) }
            }
            if it.repeat { body.push_str(&format!("({s})*; ")) } else { body.push_str(&format!("{s}; ")) }
        }
        body.push('}');
        body
    }
    fn maybe_named(&mut self, kw: &str, body: String) -> String {
        if self.rng.chance(1, 4) {
            let name = self.name("ty_");
            self.named.push((kw.to_string(), name.clone(), body));
            format!("{kw} {name}")
        } else if self.rng.chance(1, 5) {
            // anonymous-with-name form: "struct name { ... }"
            let name = self.name("inl_");
            format!("{kw} {name} {body}")
        } else {
            format!("{kw} {body}")
        }
    }

    /// a conforming instance: IF_DATA content tokens
    pub fn instance(&mut self, t: &T, out: &mut Vec<String>) {
        match t {
            T::Scalar(s) => out.push(self.scalar(s)),
            T::CharArr(n) => {
                let len = self.rng.below(*n + 1).min(*n);
                let s: String = (0..len).map(|i| ['a', 'B', ' ', '_', '7'][(i + len) % 5]).collect();
                out.push(format!("\"{s}\""));
            }
            T::Arr(of, n) => {
                for _ in 0..*n {
                    self.instance(of, out);
                }
            }
            T::Enum(items) => out.push(items[self.rng.below(items.len())].0.clone()),
            T::Struct(items) => {
                for it in items {
                    self.instance(it, out);
                }
            }
            T::TaggedStruct(items) => {
                for it in items {
                    let n = if it.repeat { self.rng.below(3) } else { self.rng.below(2) };
                    for _ in 0..n {
                        self.tagged_instance(it, out);
                    }
                }
            }
            T::TaggedUnion(items) => {
                if self.rng.chance(3, 4) {
                    let it = items[self.rng.below(items.len())].clone();
                    self.tagged_instance(&it, out);
                }
            }
        }
    }
    fn tagged_instance(&mut self, it: &Tagged, out: &mut Vec<String>) {
        if it.is_block {
            out.push("/begin".into());
        }
        out.push(it.tag.clone());
        if let Some(t) = &it.item {
            let n = if it.seq { self.rng.below(4) } else { 1 };
            for _ in 0..n {
                self.instance(t, out);
            }
        }
        if it.is_block {
            out.push("/end".into());
            out.push(it.tag.clone());
        }
    }
    fn scalar(&mut self, s: &str) -> String {
        let (min, max): (i128, i128) = match s {
            "char" => (-128, 127),
            "int" => (-32768, 32767),
            "long" => (-(1 << 31), (1 << 31) - 1),
            "int64" => (-(1 << 63), (1 << 63) - 1),
            "uchar" => (0, 255),
            "uint" => (0, 65535),
            "ulong" => (0, (1 << 32) - 1),
            "uint64" => (0, (1u128 << 64) as i128 - 1),
            "float" => return ["0", "1.5", "-2.25", "1e3", "0.1", "16777216", "3.4e38"][self.rng.below(7)].to_string(),
            _ => return ["0", "1.5", "-2.25", "1e300", "0.1", "12345.678", "-1e-9"][self.rng.below(7)].to_string(),
        };
        let v = match self.rng.below(6) {
            0 => min,
            1 => max,
            2 => 0,
            _ => min + (self.rng.next() as u128 % ((max - min) as u128).min(5000)) as i128,
        };
        if self.rng.chance(1, 4) {
            let bits = match s { "char" | "uchar" => 8, "int" | "uint" => 16, "long" | "ulong" => 32, _ => 64 };
            let n: u128 = if v < 0 { (v + (1i128 << bits)) as u128 } else { v as u128 };
            format!("0x{n:X}")
        } else {
            format!("{v}")
        }
    }
}

pub struct A2mlCase {
    pub a2ml: String,
    pub root: T,
}

/// a whole A2ML text: named definitions, then `block "IF_DATA" <root>;`
pub fn gen_a2ml(rng: &mut Rng, depth: usize) -> A2mlCase {
    let mut g = A2mlGen::new(rng);
    // the root is a taggedunion or taggedstruct in most cases (as in real files), sometimes anything
    let root = match g.rng.below(5) {
        0 => g.gen_type(depth),
        1 | 2 => T::TaggedUnion((0..1 + g.rng.below(3)).map(|_| g.gen_tagged(depth, false)).collect()),
        _ => T::TaggedStruct((0..1 + g.rng.below(4)).map(|_| g.gen_tagged(depth, true)).collect()),
    };
    let root_text = g.render(&root);
    let mut text = String::new();
    if g.rng.chance(1, 3) {
        text.push_str("/* comment */\n");
    }
    for (kw, name, body) in &g.named {
        text.push_str(&format!("{kw} {name} {body};\n"));
    }
    if g.rng.chance(1, 4) {
        text.push_str("// line comment\n");
    }
    text.push_str(&format!("block \"IF_DATA\" {root_text};\n"));
    A2mlCase { a2ml: text, root }
}

pub fn gen_instance(rng: &mut Rng, root: &T) -> Vec<String> {
    let mut g = A2mlGen::new(rng);
    // an IF_DATA block without any content is never interpreted (flagged invalid by design): generate content
    for _ in 0..50 {
        let mut out = vec![];
        g.instance(root, &mut out);
        if !out.is_empty() {
            return out;
        }
    }
    vec![]
}

/// Reference reading of "IF_DATA content conforms to the definition", written from the A2ML rules and independent of
/// the library's interpreter: members in order, arrays element by element, sequences and tagged members greedy,
/// a tagged member is recognised by its tag and by its block-ness, blocks close with `/end TAG`.
/// `lenient` adds what the non-strict reader tolerates with a diagnostic: an identifier where a string is defined,
/// and a string longer than `char[n]`.
/// `None`: the reference does not decide this input (empty content, float range).
pub fn conforms(root: &T, toks: &[String], lenient: bool) -> Option<bool> {
    if toks.is_empty() {
        // an IF_DATA block without content is never interpreted by the library (it has nothing to keep or to lose)
        return None;
    }
    let mut m = Matcher { toks, pos: 0, lenient, unsure: false };
    let ok = m.item(root) && m.pos == toks.len();
    if m.unsure { None } else { Some(ok) }
}

struct Matcher<'a> {
    toks: &'a [String],
    pos: usize,
    lenient: bool,
    unsure: bool,
}

fn is_ident(t: &str) -> bool {
    t != "/begin" && t != "/end" && t.chars().next().map_or(false, |c| c.is_ascii_alphabetic() || c == '_')
}

impl<'a> Matcher<'a> {
    fn peek(&self) -> Option<&'a str> {
        self.toks.get(self.pos).map(|s| s.as_str())
    }
    fn integer(&mut self, min: i128, max: i128, bits: u32) -> bool {
        let Some(t) = self.peek() else { return false };
        let ok = if let Some(h) = t.strip_prefix("0x").or_else(|| t.strip_prefix("0X")) {
            u128::from_str_radix(h, 16).map_or(false, |v| v < (1u128 << bits))
        } else if t.chars().all(|c| c.is_ascii_digit() || c == '-') && !t.is_empty() {
            t.parse::<i128>().map_or(false, |v| v >= min && v <= max)
        } else {
            false
        };
        if ok {
            self.pos += 1;
        }
        ok
    }
    fn item(&mut self, t: &T) -> bool {
        match t {
            T::Scalar(s) => match *s {
                "char" => self.integer(-128, 127, 8),
                "int" => self.integer(-32768, 32767, 16),
                "long" => self.integer(-(1 << 31), (1 << 31) - 1, 32),
                "int64" => self.integer(-(1 << 63), (1 << 63) - 1, 64),
                "uchar" => self.integer(0, 255, 8),
                "uint" => self.integer(0, 65535, 16),
                "ulong" => self.integer(0, (1 << 32) - 1, 32),
                "uint64" => self.integer(0, (1u128 << 64) as i128 - 1, 64),
                _ => {
                    let Some(tok) = self.peek() else { return false };
                    if tok.starts_with("0x") {
                        self.unsure = true;
                    }
                    match tok.parse::<f64>() {
                        Ok(v) if tok.chars().next().map_or(false, |c| c.is_ascii_digit() || c == '-' || c == '.') => {
                            if *s == "float" && v.abs() > 3.0e38 {
                                self.unsure = true;
                            }
                            self.pos += 1;
                            true
                        }
                        _ => false,
                    }
                }
            },
            T::CharArr(n) => {
                let Some(tok) = self.peek() else { return false };
                let ok = if tok.starts_with('"') {
                    tok.len() - 2 <= *n || self.lenient
                } else {
                    self.lenient && is_ident(tok)
                };
                if ok {
                    self.pos += 1;
                }
                ok
            }
            T::Arr(of, n) => (0..*n).all(|_| self.item(of)),
            T::Enum(items) => {
                let Some(tok) = self.peek() else { return false };
                let ok = items.iter().any(|(name, _)| name == tok);
                if ok {
                    self.pos += 1;
                }
                ok
            }
            T::Struct(items) => items.iter().all(|it| self.item(it)),
            T::TaggedStruct(items) => {
                let mut seen: Vec<&str> = vec![];
                loop {
                    match self.tagged(items) {
                        Err(()) => return false,
                        Ok(None) => return true,
                        Ok(Some(tg)) => {
                            // only members defined as ("TAG" ...)* may occur more than once
                            if !tg.repeat && seen.contains(&tg.tag.as_str()) {
                                return false;
                            }
                            seen.push(tg.tag.as_str());
                        }
                    }
                }
            }
            T::TaggedUnion(items) => self.tagged(items).is_ok(),
        }
    }
    /// Ok(None): no member of this tagged type starts here; Err: a member starts here and its content does not conform
    fn tagged<'t>(&mut self, items: &'t [Tagged]) -> Result<Option<&'t Tagged>, ()> {
        let start = self.pos;
        let (tag, is_block) = match self.peek() {
            Some("/begin") => match self.toks.get(self.pos + 1) {
                Some(t) if is_ident(t) => (t.as_str(), true),
                _ => return Ok(None),
            },
            Some(t) if is_ident(t) => (t, false),
            _ => return Ok(None),
        };
        let Some(tg) = items.iter().find(|it| it.tag == tag) else { return Ok(None) };
        if tg.is_block != is_block {
            return Ok(None);
        }
        self.pos += if is_block { 2 } else { 1 };
        if let Some(t) = &tg.item {
            if tg.seq {
                loop {
                    let p = self.pos;
                    if !self.item(t) || self.pos == p {
                        self.pos = p;
                        break;
                    }
                }
            } else if !self.item(t) {
                self.pos = start;
                return Err(());
            }
        }
        if is_block {
            if self.peek() == Some("/end") && self.toks.get(self.pos + 1).map(|s| s.as_str()) == Some(tag) {
                self.pos += 2;
            } else {
                self.pos = start;
                return Err(());
            }
        }
        Ok(Some(tg))
    }
}
