//! C07: unknown elements are skipped locally. Inserts unknown payloads at every admissible point of generated
//! documents; oracle: non-strict load equals the load of the unmutated document, exactly one more warning
//! (UnknownSubBlock), strict load is rejected with UnknownSubBlock naming the tag.
use crate::common::*;
use crate::docgen::*;
use crate::tree::*;

fn tok(text: &str, role: Role, depth: usize) -> GTok {
    GTok { text: text.to_string(), role, depth, elem: String::new() }
}

/// unknown payloads: (name, tokens, is_keyword)
fn payloads(depth: usize, n: usize) -> Vec<(&'static str, Vec<GTok>, bool)> {
    let d = depth;
    let blk = |inner: Vec<GTok>| {
        let mut v = vec![tok("/begin", Role::Begin, d), tok(&format!("UNKNOWN_BLK{n}"), Role::Tag, d)];
        v.extend(inner);
        v.push(tok("/end", Role::End, d));
        v.push(tok(&format!("UNKNOWN_BLK{n}"), Role::Tag, d));
        v
    };
    vec![
        ("keyword-scalars", vec![tok(&format!("UNKNOWN_KW{n}"), Role::Tag, d), tok("1", Role::Param, d), tok("\"s\"", Role::Param, d), tok("2.5", Role::Param, d), tok("some_ident", Role::Param, d)], true),
        ("keyword-bare", vec![tok(&format!("UNKNOWN_KW{n}"), Role::Tag, d)], true),
        ("block-empty", blk(vec![]), false),
        ("block-params", blk(vec![tok("x", Role::Param, d + 1), tok("0x10", Role::Param, d + 1), tok("\"/end\"", Role::Param, d + 1)]), false),
        ("block-nested", blk(vec![tok("/begin", Role::Begin, d + 1), tok("INNER", Role::Tag, d + 1), tok("1", Role::Param, d + 2), tok("/begin", Role::Begin, d + 2), tok("INNER2", Role::Tag, d + 2), tok("/end", Role::End, d + 2), tok("INNER2", Role::Tag, d + 2), tok("/end", Role::End, d + 1), tok("INNER", Role::Tag, d + 1), tok("KW", Role::Tag, d + 1), tok("3", Role::Param, d + 1)]), false),
        // a vendor block that contains a block of the same name (recursive structures): only the outer /end closes it
        ("block-nested-same-tag", blk(vec![tok("1", Role::Param, d + 1), tok("/begin", Role::Begin, d + 1), tok(&format!("UNKNOWN_BLK{n}"), Role::Tag, d + 1), tok("2", Role::Param, d + 2), tok("/end", Role::End, d + 1), tok(&format!("UNKNOWN_BLK{n}"), Role::Tag, d + 1), tok("5", Role::Param, d + 1)]), false),
        ("block-comments", blk(vec![tok("/* inner */", Role::Comment, d + 1), tok("a", Role::Param, d + 1), tok("// line", Role::Comment, d + 1)]), false),
        ("keyword-nested-block", vec![tok(&format!("UNKNOWN_KW{n}"), Role::Tag, d), tok("7", Role::Param, d), tok("/begin", Role::Begin, d), tok("SUBX", Role::Tag, d), tok("/end", Role::End, d), tok("SUBX", Role::Tag, d)], true),
    ]
}

/// does the block type end its fixed parameters with a list that would swallow a bare identifier?
fn open_ident_list(g: &Grammar, ty: &str) -> bool {
    if let Some(TyDef::Block { items, .. }) = g.types.get(ty) {
        if let Some(Item::Seq(of, _)) = items.last() {
            fn starts_identish(g: &Grammar, it: &Item) -> bool {
                match it {
                    Item::Ident | Item::Str | Item::StrMax(_) | Item::Enum(_) => true,
                    Item::Struct(t) => match g.types.get(t) {
                        Some(TyDef::Block { items, .. }) => items.first().map_or(false, |i| starts_identish(g, i)),
                        _ => false,
                    },
                    Item::Arr(of, _) | Item::Seq(of, _) => starts_identish(g, of),
                    _ => false,
                }
            }
            return starts_identish(g, of);
        }
    }
    false
}

pub fn run(args: &Args) -> Report {
    let mut rep = Report::new(
        "C07",
        "generated documents x every admissible insertion point (inside /begin../end blocks that have optional sub-elements: before each child and before the block's /end) x 7 unknown payloads (keyword with scalar arguments, bare keyword, empty block, block with parameters incl. a string \"/end\", nested unknown blocks + keyword, comments inside, keyword followed by a nested block); excluded as in the property: payload reusing a parent's tag, bare keyword directly behind an open identifier list. non-trivial = every case; distinct = distinct mutated texts",
    );
    let g = match Grammar::load() {
        Ok(g) => g,
        Err(e) => {
            rep.fail("infrastructure", String::new(), e);
            return rep;
        }
    };
    let mut rng = Rng::new(args.seed);
    let ndocs = if args.thorough { 1500 } else { 180 };
    let mut cases: Vec<(String, String, String, bool)> = vec![]; // (orig, mutated, unknown tag, payload name)
    if let Some(input) = &args.replay {
        let mut it = input.split_whitespace();
        let orig = String::from_utf8_lossy(&unhex(it.next().unwrap_or("-"))).into_owned();
        let mutated = String::from_utf8_lossy(&unhex(it.next().unwrap_or("-"))).into_owned();
        let tag = it.next().unwrap_or("UNKNOWN").to_string();
        cases.push((orig, mutated, tag, true));
    } else {
        let mut n = 0;
        for d in 0..ndocs {
            let toks = gen_document(&g, &mut rng, GenOpts { opt_prob: [15, 35][d % 2], comments: d % 3 == 0, ..GenOpts::default() });
            let layout = [Layout::Canonical, Layout::Wild, Layout::Dense][d % 3];
            let mut r2 = Rng::new(rng.next());
            let orig = render(&toks, &mut Rng(r2.0), layout, false);
            // block stack: (type, depth, has tagged part)
            let mut stack: Vec<(String, usize)> = vec![];
            // (index, parent type, depth, first_child) ; `prev_kw`: type of the directly preceding keyword sibling
            let mut points: Vec<(usize, String, usize, bool, String)> = vec![];
            let mut seen_child: Vec<bool> = vec![];
            let mut prev_kw: Vec<String> = vec![];
            for (i, t) in toks.iter().enumerate() {
                match t.role {
                    Role::Begin => {
                        if let Some((pty, pd)) = stack.last() {
                            let first = !*seen_child.last().unwrap();
                            points.push((i, pty.clone(), *pd + 1, first, prev_kw.last().cloned().unwrap_or_default()));
                            *seen_child.last_mut().unwrap() = true;
                            *prev_kw.last_mut().unwrap() = String::new();
                        }
                        stack.push((t.elem.clone(), t.depth));
                        seen_child.push(false);
                        prev_kw.push(String::new());
                    }
                    Role::End => {
                        if let Some((pty, pd)) = stack.last() {
                            let first = !*seen_child.last().unwrap();
                            points.push((i, pty.clone(), *pd + 1, first, prev_kw.last().cloned().unwrap_or_default()));
                        }
                        stack.pop();
                        seen_child.pop();
                        prev_kw.pop();
                    }
                    Role::Tag => {
                        // keyword child: a Tag that is not preceded by /begin or /end
                        let prev = if i > 0 { Some(&toks[i - 1].role) } else { None };
                        if !matches!(prev, Some(Role::Begin) | Some(Role::End)) {
                            if let Some((pty, pd)) = stack.last() {
                                if t.depth == *pd + 1 {
                                    let first = !*seen_child.last().unwrap();
                                    points.push((i, pty.clone(), *pd + 1, first, prev_kw.last().cloned().unwrap_or_default()));
                                    *seen_child.last_mut().unwrap() = true;
                                    *prev_kw.last_mut().unwrap() = t.elem.clone();
                                }
                            }
                        }
                    }
                    _ => {}
                }
            }
            // parents must have a tagged part
            points.retain(|(_, pty, _, _, _)| matches!(g.types.get(pty), Some(TyDef::Block { arms, is_block: true, .. }) if !arms.is_empty()));
            let sample_points = if args.thorough { points.len() } else { points.len().min(14) };
            for k in 0..sample_points {
                let (idx, pty, depth, first, prevkw) = points[(k * 7919) % points.len()].clone();
                n += 1;
                let pl = payloads(depth, n);
                let (pname, ptoks, is_kw) = pl[(n + k) % pl.len()].clone();
                // the property's own exclusion: a bare keyword directly behind an open identifier list (of the parent's
                // parameters, or of the preceding keyword sibling such as FRAME_MEASUREMENT) is a list member by definition
                if is_kw && ((first && open_ident_list(&g, &pty)) || (!prevkw.is_empty() && open_ident_list(&g, &prevkw))) {
                    rep.bump("excluded:keyword-behind-open-list");
                    continue;
                }
                let mut m = toks.clone();
                for (j, pt) in ptoks.iter().enumerate() {
                    m.insert(idx + j, pt.clone());
                }
                let mutated = render(&m, &mut Rng(r2.0), layout, false);
                let _ = r2.next();
                rep.bump(&format!("payload:{pname}"));
                cases.push((orig.clone(), mutated, ptoks.iter().find(|t| t.text.starts_with("UNKNOWN")).map(|t| t.text.clone()).unwrap_or_default(), is_kw));
            }
        }
    }
    for (i, (orig, mutated, tag, _)) in cases.iter().enumerate() {
        rep.case(mutated, true);
        if i % 211 == 0 {
            rep.sample(format!("insert {tag}: …{}…", mutated.split(tag.as_str()).next().unwrap_or("").chars().rev().take(60).collect::<String>().chars().rev().collect::<String>()));
        }
        let input = format!("{} {} {}", hex(orig.as_bytes()), hex(mutated.as_bytes()), tag);
        let (m0, l0) = match load(orig, false) {
            Loaded::Ok(f, l) => (f, l),
            _ => {
                rep.fail("generator", input, "original document does not load".into());
                continue;
            }
        };
        match load(mutated, false) {
            Loaded::Panic(p) => rep.fail("panic", input.clone(), p),
            Loaded::Err(e) => rep.fail("not-skipped", input.clone(), format!("non-strict load of the document with the unknown element {tag} fails: {e}")),
            Loaded::Ok(m1, l1) => {
                if m1 != m0 {
                    rep.fail("not-local", input.clone(), format!("model differs from the load of the unmutated document after skipping {tag}"));
                }
                let unk = |l: &Vec<a2lfile::A2lError>| log_text(l).split(',').filter(|x| x.starts_with("UnknownSubBlock")).count();
                if unk(&l1) != unk(&l0) + 1 || l1.len() != l0.len() + 1 {
                    rep.fail("warnings", input.clone(), format!("expected exactly one additional UnknownSubBlock warning, got [{}] vs original [{}]", log_text(&l1), log_text(&l0)));
                }
            }
        }
        match catch(|| a2lfile::load_from_string(mutated, None, true)) {
            Err(p) => rep.fail("panic", input.clone(), p),
            Ok(Ok(_)) => rep.fail("strict-accepts", input.clone(), format!("strict load accepts the unknown element {tag}")),
            Ok(Err(e)) => {
                let msg = e.to_string();
                let is_unknown = matches!(&e, a2lfile::A2lError::ParserError { parser_error: a2lfile::ParserError::UnknownSubBlock { .. } });
                // a strict load of the original may already fail for an unrelated reason (then that error comes first)
                let orig_strict_ok = matches!(load(orig, true), Loaded::Ok(..));
                if orig_strict_ok && !(is_unknown && msg.contains(tag.as_str())) {
                    rep.fail("strict-error", input.clone(), format!("strict error does not name the unknown element {tag}: {msg}"));
                }
            }
        }
        if i % 3 == 0 {
            if let Some((req, ans)) = tie_case(mutated, i % 2 == 0) {
                rep.tie(req, ans);
            }
        }
    }
    rep
}
