//! C14 (sort) and C15 (sort_new_items): oracle = the property statement on the written text / model of the real code;
//! tie = snapshot of the layout (uid, line per element) before the call -> Lean model's uids and write order after.
use crate::a2lgen::*;
use crate::common::*;
use a2lfile::{A2lFile, A2lObjectName, Module};

fn module_content(m: &Module) -> Vec<Vec<String>> {
    // layout-free content per list (the crate's Debug output prints every non-layout field), sorted within the list
    macro_rules! l {
        ($f:ident) => {{
            let mut v: Vec<String> = m.$f.iter().map(|x| format!("{x:?}")).collect();
            v.sort();
            v
        }};
    }
    macro_rules! o {
        ($f:ident) => {
            m.$f.iter().map(|x| format!("{x:?}")).collect::<Vec<String>>()
        };
    }
    vec![
        o!(a2ml), o!(mod_common), o!(mod_par), l!(if_data), l!(characteristic), l!(measurement), l!(axis_pts), l!(instance), l!(blob),
        l!(compu_method), l!(compu_tab), l!(compu_vtab), l!(compu_vtab_range), l!(typedef_structure), l!(typedef_characteristic),
        l!(typedef_measurement), l!(typedef_axis), l!(typedef_blob), l!(frame), l!(function), l!(group), l!(record_layout),
        l!(transformer), l!(unit), l!(user_rights), o!(variant_coding),
    ]
}

/// documented canonical order of a module: sections in sequence, names ascending within named sections
fn canonical(snap: &(Vec<SnapSection>, Vec<SnapElem>)) -> Vec<String> {
    let mut out = vec![];
    for sec in &snap.0 {
        let mut es = sec.elems.clone();
        if sec.kind == "byName" {
            es.sort_by(|a, b| a.name.cmp(&b.name));
        }
        for e in es {
            out.push(show(&e));
        }
    }
    out
}

fn show(e: &SnapElem) -> String {
    if matches!(e.tag.as_str(), "A2ML" | "MOD_COMMON" | "MOD_PAR" | "IF_DATA" | "VARIANT_CODING") {
        e.tag.clone()
    } else {
        format!("{} {}", e.tag, e.name)
    }
}

fn gen_file(rng: &mut Rng, max_elems: usize) -> String {
    let many = rng.chance(1, 4);
    let nmod = 1 + rng.below(if many { 3 } else { 1 });
    let mods: Vec<Vec<GenElem>> = (0..nmod).map(|i| random_module_elems(rng, &format!("m{i}"), max_elems, true)).collect();
    file_text(&mods, rng)
}

/// lookup by name in every named list of the module
pub fn index_check(m: &a2lfile::Module) -> Option<String> {
    use a2lfile::A2lObjectName;
    macro_rules! chk {
        ($($f:ident),*) => {
            $(
                for (i, e) in m.$f.iter().enumerate() {
                    let name = e.get_name().to_string();
                    match m.$f.get(&name) {
                        Some(x) if x.get_name() == name => {}
                        Some(x) => return Some(format!("{}: lookup of {name} (position {i}) yields {}", stringify!($f), x.get_name())),
                        None => return Some(format!("{}: {name} (position {i}) is not found by name", stringify!($f))),
                    }
                    if m.$f.index(&name) != Some(i) && m.$f.iter().filter(|y| y.get_name() == name).count() == 1 {
                        return Some(format!("{}: index of {name} is {:?}, it stands at {i}", stringify!($f), m.$f.index(&name)));
                    }
                }
            )*
        };
    }
    chk!(axis_pts, blob, characteristic, compu_method, compu_tab, compu_vtab, compu_vtab_range, frame, function, group, instance, measurement, record_layout, transformer, typedef_axis, typedef_blob, typedef_characteristic, typedef_measurement, typedef_structure, unit);
    None
}

pub fn run_c14(args: &Args) -> Report {
    let mut rep = Report::new(
        "C14",
        "generated files: 1-3 modules, 1..N elements of up to 8 of the 20 named kinds in random interleaving with unsorted unique names, optional A2ML/MOD_COMMON/MOD_PAR/VARIANT_CODING, IF_DATA, USER_RIGHTS, block comments, blank lines; sort() then write, reload, sort again. non-trivial = at least one module whose written order changes by sorting; distinct = distinct input texts",
    );
    let mut rng = Rng::new(args.seed);
    let n = if args.thorough { 20000 } else { 1500 };
    let texts: Vec<String> = if let Some(input) = &args.replay {
        vec![String::from_utf8_lossy(&unhex(input)).into_owned()]
    } else {
        (0..n).map(|i| gen_file(&mut rng, if i % 10 == 0 { 60 } else { 12 })).collect()
    };
    for (i, text) in texts.iter().enumerate() {
        let mut file = match load(text) {
            Ok(f) => f,
            Err(e) => {
                rep.fail("generator", hex(text.as_bytes()), e);
                continue;
            }
        };
        let before_order = written_children(&file.write_to_string());
        let snaps: Vec<_> = file.project.module.iter().map(snapshot).collect();
        let contents: Vec<_> = file.project.module.iter().map(module_content).collect();
        let modnames: Vec<String> = file.project.module.iter().map(|m| m.get_name().to_string()).collect();
        if let Err(p) = catch(|| file.sort()) {
            rep.fail("panic", hex(text.as_bytes()), format!("sort() panicked: {p}"));
            continue;
        }
        let sorted_text = file.write_to_string();
        let after_order = written_children(&sorted_text);
        let mut changed = false;
        // sort() orders the modules by name as well: look each one up by name
        let mut fail = |rep: &mut Report, kind: &str, detail: String| rep.fail(kind, hex(text.as_bytes()), detail);
        for (mi, mname) in modnames.iter().enumerate() {
            let Some(pos) = file.project.module.iter().position(|m| m.get_name() == mname) else {
                fail(&mut rep, "lost-module", format!("module {mname} disappeared"));
                continue;
            };
            let m = &file.project.module[pos];
            // (1) pure reordering: same elements, unchanged content
            if module_content(m) != contents[mi] {
                fail(&mut rep, "content", format!("module {mname}: element content changed by sort()"));
            }
            // (1b) the lists can still be searched by name: every name finds the element that carries it
            if let Some(d) = index_check(m) {
                fail(&mut rep, "index", format!("module {mname}: {d}"));
            }
            // (2) written order is the documented canonical order
            let want = canonical(&snaps[mi]);
            if after_order.get(pos) != Some(&want) {
                fail(&mut rep, "order", format!("module {mname}: written order {:?}, canonical {:?}", after_order.get(pos), want));
            }
            if before_order.get(mi).map(|v| v.iter().filter(|x| !x.starts_with("// ")).cloned().collect::<Vec<_>>()) != Some(want.clone()) {
                changed = true;
            }
            // tie
            let after_snap = snapshot(m);
            rep.tie(format!("srt sort {}", snapshot_text(&snaps[mi])), format!("{} # {}", uids_text(&after_snap), after_order.get(pos).map_or(String::new(), |v| v.join(","))));
        }
        // (3) reload keeps model and order
        match load(&sorted_text) {
            Err(e) => fail(&mut rep, "reload", format!("sorted text does not load: {e}")),
            Ok(re) => {
                if re != file {
                    fail(&mut rep, "reload", "reloaded model differs from the sorted model".into());
                }
                let t2 = re.write_to_string();
                if written_children(&t2) != after_order {
                    fail(&mut rep, "reload-order", "order changed by write+reload".into());
                }
                for (a, b) in re.project.module.iter().zip(file.project.module.iter()) {
                    if snapshot(a).0.iter().map(|s| s.elems.iter().map(|e| e.name.clone()).collect::<Vec<_>>()).collect::<Vec<_>>()
                        != snapshot(b).0.iter().map(|s| s.elems.iter().map(|e| e.name.clone()).collect::<Vec<_>>()).collect::<Vec<_>>()
                    {
                        fail(&mut rep, "reload-order", "list order differs after reload".into());
                    }
                }
            }
        }
        // (4) idempotent
        let mut again = file.clone();
        again.sort();
        if again.write_to_string() != sorted_text || again != file {
            fail(&mut rep, "idempotent", "sorting a second time changed the file".into());
        }
        rep.case(text, changed);
        rep.bump(&format!("modules:{}", modnames.len()));
        let total: usize = snaps.iter().map(|s| s.0.iter().map(|x| x.elems.len()).sum::<usize>()).sum();
        rep.bump(&format!("elements:{}", if total < 8 { "<8" } else if total < 20 { "8-19" } else { ">=20" }));
        if i % 401 == 0 {
            rep.sample(snapshot_text(&snaps[0]));
        }
    }
    rep
}

// ---------------------------------------------------------------------------------------------------------------

#[derive(Clone, Debug)]
enum Step {
    Push(usize, String),
    Merge(String),
    Sni,
    Reload,
}

pub fn push_new(file: &mut A2lFile, kind: usize, name: &str) {
    use a2lfile::*;
    let m = &mut file.project.module[0];
    let n = name.to_string();
    match kind {
        0 => m.measurement.push(Measurement::new(n, String::new(), DataType::Ubyte, "NO_COMPU_METHOD".into(), 0, 0.0, 0.0, 255.0)),
        1 => m.group.push(Group::new(n, String::new())),
        2 => m.function.push(Function::new(n, String::new())),
        3 => m.compu_method.push(CompuMethod::new(n, String::new(), ConversionType::Identical, "%6.2".into(), "u".into())),
        4 => m.unit.push(Unit::new(n, String::new(), "u".into(), UnitType::Derived)),
        5 => m.record_layout.push(RecordLayout::new(n)),
        7 => m.user_rights.push(UserRights::new(n)),
        8 => m.if_data.push(IfData::new()),
        _ => m.characteristic.push(Characteristic::new(n, String::new(), CharacteristicType::Value, 0, "rl".into(), 0.0, "NO_COMPU_METHOD".into(), 0.0, 255.0)),
    }
}
const PUSH_TAGS: [&str; 9] = ["MEASUREMENT", "GROUP", "FUNCTION", "COMPU_METHOD", "UNIT", "RECORD_LAYOUT", "CHARACTERISTIC", "USER_RIGHTS", "IF_DATA"];

fn max_uid(snap: &(Vec<SnapSection>, Vec<SnapElem>)) -> u64 {
    snap.0.iter().flat_map(|s| s.elems.iter()).chain(snap.1.iter()).map(|e| e.uid as u64).max().unwrap_or(0)
}

/// check one sort_new_items step against the property statement
fn check_sni(before: &(Vec<SnapSection>, Vec<SnapElem>), order_before: &[String], order_after: &[String]) -> Result<(), String> {
    let placed: Vec<String> = before.0.iter().flat_map(|s| s.elems.iter()).filter(|e| e.uid != 0).map(show).collect();
    // comments are placed elements too
    let is_placed = |x: &String| placed.contains(x) || x.starts_with("// ");
    // (a) relative order of placed elements unchanged
    let pb: Vec<&String> = order_before.iter().filter(|x| is_placed(x)).collect();
    let pa: Vec<&String> = order_after.iter().filter(|x| is_placed(x)).collect();
    if pb != pa {
        return Err(format!("relative order of already placed elements changed: before {pb:?}, after {pa:?}"));
    }
    if order_after.len() != order_before.len() {
        return Err("number of written elements changed".into());
    }
    // (b) new elements of list kinds directly behind the last placed element of their kind, else at the end
    for sec in &before.0 {
        if sec.kind == "single" {
            continue;
        }
        let tag_placed: Vec<String> = sec.elems.iter().filter(|e| e.uid != 0).map(show).collect();
        for e in sec.elems.iter().filter(|e| e.uid == 0) {
            let me = show(e);
            if tag_placed.iter().any(|x| *x == me) {
                continue; // unnamed kinds (IF_DATA): cannot be told apart in the text
            }
            let Some(pos) = order_after.iter().position(|x| *x == me) else {
                return Err(format!("new element {me} is not written"));
            };
            // the nearest placed element before it
            let prev_placed = order_after[..pos].iter().rev().find(|x| is_placed(x));
            if tag_placed.is_empty() {
                // at the end: no placed element after it
                if order_after[pos..].iter().any(|x| is_placed(x)) {
                    return Err(format!("new element {me} (no placed element of its kind) is not at the end"));
                }
            } else {
                // last placed element of the kind in the old order
                let last = order_before.iter().rev().find(|x| tag_placed.contains(x)).unwrap();
                if prev_placed != Some(last) {
                    return Err(format!("new element {me} is written behind {prev_placed:?}, the last placed element of its kind is {last}"));
                }
            }
        }
    }
    Ok(())
}

pub fn run_c15(args: &Args) -> Report {
    let mut rep = Report::new(
        "C15",
        "histories over {push a new element of one of 7 kinds through the API, merge a generated module (all 20 kinds, fresh names), sort_new_items, write+reload} on generated files; plus k consecutive sort_new_items calls for k up to 64 on small files. After every sort_new_items the property statement is evaluated on the written order; non-trivial = history with at least one sort_new_items that had new elements to place; distinct = distinct (file, history)",
    );
    let mut rng = Rng::new(args.seed);
    let nhist = if args.thorough { 4000 } else { 400 };
    let mut histories: Vec<(String, Vec<Step>, &'static str)> = vec![];
    if let Some(input) = &args.replay {
        // replay: "<hex of file text> <step> <step> ..." with steps push:<k>:<name> merge:<hex> sni reload
        let mut it = input.split_whitespace();
        let text = String::from_utf8_lossy(&unhex(it.next().unwrap_or("-"))).into_owned();
        let steps = it
            .filter_map(|s| {
                let p: Vec<&str> = s.split(':').collect();
                Some(match p[0] {
                    "push" => Step::Push(p[1].parse().ok()?, p[2].to_string()),
                    "merge" => Step::Merge(String::from_utf8_lossy(&unhex(p[1])).into_owned()),
                    "sni" => Step::Sni,
                    "reload" => Step::Reload,
                    _ => return None,
                })
            })
            .collect();
        histories.push((text, steps, "replay"));
    } else {
        for h in 0..nhist {
            let text = gen_file(&mut rng, if h % 7 == 0 { 40 } else { 10 });
            let len = if args.thorough && h % 20 == 0 { 300 } else { 5 + rng.below(35) };
            let mut steps = vec![];
            let mut fresh = 0;
            for _ in 0..len {
                steps.push(match rng.below(10) {
                    0..=3 => {
                        fresh += 1;
                        // mostly the named kinds; the two unnamed list kinds (USER_RIGHTS, IF_DATA) as well; in "burst" histories
                        // (h % 5 == 3) one kind only, so that several new elements of one kind are placed by one call
                        let k = if h % 5 == 3 { h % 7 } else { [0, 1, 2, 3, 4, 5, 6, 0, 6, 7, 7][rng.below(11)] };
                        Step::Push(k, format!("{}new{fresh}", ["x", "a", "z"][rng.below(3)]))
                    }
                    4 => {
                        fresh += 1;
                        let mut r2 = Rng::new(rng.next());
                        let mut elems = random_module_elems(&mut r2, &format!("mg{fresh}_"), 5, false);
                        elems.retain(|e| e.kind < 20);
                        Step::Merge(file_text(&[elems], &mut r2))
                    }
                    5..=8 => Step::Sni,
                    _ => Step::Reload,
                });
            }
            histories.push((text, steps, "mixed"));
        }
        // k consecutive calls, k up to 64 (the property's own quantifier)
        for h in 0..(if args.thorough { 20 } else { 4 }) {
            let text = gen_file(&mut rng, 3 + h);
            let mut steps = vec![Step::Push(0, "fresh".into())];
            steps.extend((0..64).map(|_| Step::Sni));
            histories.push((text, steps, "consecutive64"));
        }
    }
    for (hi, (text, steps, family)) in histories.iter().enumerate() {
        let mut file = match load(text) {
            Ok(f) => f,
            Err(e) => {
                rep.fail("generator", hex(text.as_bytes()), e);
                continue;
            }
        };
        let mut had_new = false;
        let mut consecutive = 0u32;
        let mut maxuid_at_reset = file.project.module.iter().map(|m| max_uid(&snapshot(m))).max().unwrap_or(0);
        let mut done: Vec<String> = vec![];
        let step_text = |s: &Step| match s {
            Step::Push(k, n) => format!("push:{k}:{n}"),
            Step::Merge(t) => format!("merge:{}", hex(t.as_bytes())),
            Step::Sni => "sni".into(),
            Step::Reload => "reload".into(),
        };
        for step in steps {
            done.push(step_text(step));
            let replay = || format!("{} {}", hex(text.as_bytes()), done.join(" "));
            match step {
                Step::Push(k, n) => {
                    let tag = PUSH_TAGS[*k];
                    let snap0 = snapshot(&file.project.module[0]);
                    let exists = snap0.0.iter().any(|s| s.elems.iter().any(|e| e.tag == tag && e.name == *n));
                    if !exists {
                        // "... without reordering": adding an element does not change the relative written order of the
                        // elements that were placed before (named elements only: they can be told apart in the text)
                        let placed: Vec<String> = snap0.0.iter().flat_map(|s| s.elems.iter()).filter(|e| e.uid != 0 && !e.name.is_empty()).map(show).collect();
                        let ob: Vec<String> = written_children(&file.write_to_string()).first().cloned().unwrap_or_default().into_iter().filter(|x| placed.contains(x)).collect();
                        push_new(&mut file, *k, n);
                        let oa: Vec<String> = written_children(&file.write_to_string()).first().cloned().unwrap_or_default().into_iter().filter(|x| placed.contains(x)).collect();
                        if ob != oa {
                            let k = (0..ob.len().min(oa.len())).find(|&i| ob[i] != oa[i]).unwrap_or(0);
                            rep.fail("placement", replay(), format!("pushing {tag} {n} changed the relative written order of elements that were already placed: position {k} was {:?}, is {:?}", ob.get(k), oa.get(k)));
                        }
                    }
                }
                Step::Merge(t) => {
                    if let Ok(mut other) = load(t) {
                        if catch(|| file.merge_modules(&mut other)).is_err() {
                            rep.bump("merge-panicked(other property)");
                        }
                    }
                }
                Step::Reload => match load(&file.write_to_string()) {
                    Ok(f) => {
                        file = f;
                        consecutive = 0;
                        maxuid_at_reset = file.project.module.iter().map(|m| max_uid(&snapshot(m))).max().unwrap_or(0);
                    }
                    Err(e) => {
                        rep.fail("reload", replay(), e);
                        break;
                    }
                },
                Step::Sni => {
                    let before: Vec<_> = file.project.module.iter().map(snapshot).collect();
                    let order_before = written_children(&file.write_to_string());
                    if before.iter().any(|s| s.0.iter().any(|sec| sec.elems.iter().any(|e| e.uid == 0))) {
                        had_new = true;
                    }
                    consecutive += 1;
                    let r = catch(|| file.sort_new_items());
                    let cur_max = before.iter().map(max_uid).max().unwrap_or(0);
                    match r {
                        Err(p) => {
                            // doubling law: this call needs 2*maxuid+1 to fit into u32
                            let predicted = 2 * cur_max + 1 > u32::MAX as u64;
                            rep.fail(
                                if predicted && p.contains("overflow") { "uid-doubling-overflow" } else { "panic" },
                                replay(),
                                format!("sort_new_items panicked: {p}; consecutive_calls={consecutive} maxuid_after_last_load={maxuid_at_reset} maxuid_now={cur_max}"),
                            );
                            // the panic belongs to the first module (in file order) whose own uids overflow; the
                            // modules before it were processed without a panic, the ones behind it never reached
                            for b in &before {
                                if 2 * max_uid(b) + 1 > u32::MAX as u64 {
                                    rep.tie(format!("srt sni {}", snapshot_text(b)), "PANIC".into());
                                    break;
                                }
                            }
                            break;
                        }
                        Ok(()) => {
                            let order_after = written_children(&file.write_to_string());
                            for (mi, b) in before.iter().enumerate() {
                                let (ob, oa) = (order_before.get(mi).cloned().unwrap_or_default(), order_after.get(mi).cloned().unwrap_or_default());
                                if let Err(m) = check_sni(b, &ob, &oa) {
                                    rep.fail("placement", replay(), format!("module {mi}: {m}"));
                                }
                                let after = snapshot(&file.project.module[mi]);
                                rep.tie(format!("srt sni {}", snapshot_text(b)), format!("{} # {}", uids_text(&after), oa.join(",")));
                            }
                        }
                    }
                }
            }
        }
        rep.case(&(text, done.join(" ")), had_new);
        rep.bump(&format!("family:{family}"));
        if hi % 97 == 0 {
            rep.sample(done.iter().map(|s| if s.len() > 40 { format!("{}…", &s[..40]) } else { s.clone() }).collect::<Vec<_>>().join(" "));
        }
    }
    // witness scenario, evaluated with the USER's notion of "placed" (= went through an earlier cycle), which the
    // histories above cannot use: elements of a kind that had no element in the loaded file keep uid 0 for ever and are
    // re-sorted (by tag, then name) with every later new element - known finding C15-end-group
    if args.replay.is_none() {
        let text = "ASAP2_VERSION 1 71\n/begin PROJECT p \"\"\n/begin MODULE m \"\"\n/begin GROUP g1 \"\"\n/end GROUP\n/end MODULE\n/end PROJECT\n";
        if let Ok(mut file) = load(text) {
            let mut done: Vec<String> = vec![];
            let mut orders: Vec<Vec<String>> = vec![];
            let mut panicked = false;
            for (k, n) in [(4usize, "zz"), (4, "aa"), (2, "fnew")] {
                push_new(&mut file, k, n);
                done.push(format!("push:{k}:{n}"));
                done.push("sni".into());
                if catch(|| file.sort_new_items()).is_err() {
                    panicked = true;
                    break;
                }
                orders.push(written_children(&file.write_to_string()).first().cloned().unwrap_or_default());
            }
            rep.case(&(text, "end-group witness"), true);
            rep.bump("family:end-group-witness");
            let replay = format!("{} {}", hex(text.as_bytes()), done.join(" "));
            let want: [&[&str]; 3] = [&["GROUP g1", "UNIT zz"], &["GROUP g1", "UNIT zz", "UNIT aa"], &["GROUP g1", "UNIT zz", "UNIT aa", "FUNCTION fnew"]];
            if panicked || orders.len() != 3 || orders[0] != want[0] {
                rep.fail("placement", replay, format!("end-group witness: unexpected first cycle {orders:?}"));
            } else if orders[1] != want[1] || orders[2] != want[2] {
                rep.fail("end-group-reordered", replay, format!("cycle 2 wrote {:?} (a reader of the property expects {:?}: UNIT zz was placed by cycle 1), cycle 3 wrote {:?} (expected {:?}: a FUNCTION, none placed, goes to the end)", orders[1], want[1], orders[2], want[2]));
            }
        }
    }
    rep
}
