//! C11 / C12: structural tie for `check()`. The real `A2lFile` is projected field by field (public fields only) into the
//! token stream of the Lean model `Model/Checker.lean` (`chkfull`), and the ordered list of `A2lError`s of the real
//! `check()` is compared with the ordered list of reports of the model: every report, its source, target, class, and
//! - where the numbers are exactly representable - the limits and calculated limits.
use crate::c12::dyadic;
use crate::common::*;
use a2lfile::*;

fn hn(s: &str) -> String {
    hex(s.as_bytes())
}
fn opt_name(o: Option<&str>) -> String {
    match o {
        None => "!".into(),
        Some(s) => hn(s),
    }
}
fn names(l: &[String]) -> String {
    let mut s = l.len().to_string();
    for n in l {
        s.push(' ');
        s.push_str(&hn(n));
    }
    s
}
fn opt_list(o: Option<&Vec<String>>) -> String {
    match o {
        None => "!".into(),
        Some(l) => names(l),
    }
}
fn opt_dt(o: Option<DataType>) -> String {
    match o {
        None => "!".into(),
        Some(d) => d.to_string(),
    }
}

fn axis_descr(ad: &AxisDescr) -> String {
    format!(
        "{} {} {} {} {} {} {}",
        hn(&ad.attribute.to_string()),
        hn(&ad.input_quantity),
        hn(&ad.conversion),
        dyadic(ad.lower_limit),
        dyadic(ad.upper_limit),
        opt_name(ad.axis_pts_ref.as_ref().map(|r| r.axis_points.as_str())),
        opt_name(ad.curve_axis_ref.as_ref().map(|r| r.curve_axis.as_str()))
    )
}

#[allow(clippy::too_many_arguments)]
fn charlike(
    name: &str,
    ctype: String,
    rl: &str,
    conv: &str,
    lo: f64,
    hi: f64,
    ads: &[AxisDescr],
    c: Option<&Characteristic>,
) -> String {
    let mut s = format!("{} {} {} {} {} {} {}", hn(name), hn(&ctype), hn(rl), hn(conv), dyadic(lo), dyadic(hi), ads.len());
    for ad in ads {
        s.push(' ');
        s.push_str(&axis_descr(ad));
    }
    match c {
        Some(c) => {
            s.push_str(&format!(
                " {} {} {} {} {} {}",
                opt_name(c.comparison_quantity.as_ref().map(|q| q.name.as_str())),
                opt_list(c.dependent_characteristic.as_ref().map(|d| &d.characteristic_list)),
                opt_list(c.map_list.as_ref().map(|d| &d.name_list)),
                opt_list(c.virtual_characteristic.as_ref().map(|d| &d.characteristic_list)),
                opt_list(c.function_list.as_ref().map(|d| &d.name_list)),
                opt_name(c.ref_memory_segment.as_ref().map(|r| r.name.as_str()))
            ));
        }
        None => s.push_str(" ! ! ! ! ! !"),
    }
    s
}

fn section<T>(tag: &str, items: impl Iterator<Item = T>, f: impl Fn(T) -> String) -> String {
    let v: Vec<String> = items.map(f).collect();
    let mut s = format!(" {tag} {}", v.len());
    for x in v {
        s.push(' ');
        s.push_str(&x);
    }
    s
}

/// the part of the model `check()` reads, as the token stream of `Driver/Checker.lean`
pub fn project(file: &A2lFile) -> String {
    let mut out = file.project.module.len().to_string();
    for m in &file.project.module {
        out.push_str(" M");
        out.push_str(&section("AP", m.axis_pts.iter(), |a| {
            format!(
                "{} {} {} {} {} {} {} {}",
                hn(a.get_name()),
                hn(&a.input_quantity),
                hn(&a.deposit_record),
                hn(&a.conversion),
                dyadic(a.lower_limit),
                dyadic(a.upper_limit),
                opt_list(a.function_list.as_ref().map(|d| &d.name_list)),
                opt_name(a.ref_memory_segment.as_ref().map(|r| r.name.as_str()))
            )
        }));
        out.push_str(&section("BL", m.blob.iter(), |b| hn(b.get_name())));
        out.push_str(&section("CH", m.characteristic.iter(), |c| {
            charlike(c.get_name(), c.characteristic_type.to_string(), &c.deposit, &c.conversion, c.lower_limit, c.upper_limit, &c.axis_descr, Some(c))
        }));
        out.push_str(&section("IN", m.instance.iter(), |i| format!("{} {}", hn(i.get_name()), hn(&i.type_ref))));
        out.push_str(&section("ME", m.measurement.iter(), |x| {
            format!(
                "{} {} {} {} {} {} {}",
                hn(x.get_name()),
                x.datatype,
                hn(&x.conversion),
                dyadic(x.lower_limit),
                dyadic(x.upper_limit),
                opt_name(x.ref_memory_segment.as_ref().map(|r| r.name.as_str())),
                opt_list(x.function_list.as_ref().map(|d| &d.name_list))
            )
        }));
        out.push_str(&section("TA", m.typedef_axis.iter(), |t| {
            format!("{} {} {} {}", hn(t.get_name()), hn(&t.input_quantity), hn(&t.record_layout), hn(&t.conversion))
        }));
        out.push_str(&section("TB", m.typedef_blob.iter(), |b| hn(b.get_name())));
        out.push_str(&section("TC", m.typedef_characteristic.iter(), |c| {
            charlike(c.get_name(), c.characteristic_type.to_string(), &c.record_layout, &c.conversion, c.lower_limit, c.upper_limit, &c.axis_descr, None)
        }));
        out.push_str(&section("TM", m.typedef_measurement.iter(), |x| {
            format!("{} {} {} {} {} ! !", hn(x.get_name()), x.datatype, hn(&x.conversion), dyadic(x.lower_limit), dyadic(x.upper_limit))
        }));
        out.push_str(&section("TS", m.typedef_structure.iter(), |t| {
            let mut s = format!("{} {}", hn(t.get_name()), t.structure_component.len());
            for sc in &t.structure_component {
                s.push_str(&format!(" {} {}", hn(sc.get_name()), hn(&sc.component_type)));
            }
            s
        }));
        out.push_str(&section("CM", m.compu_method.iter(), |c| {
            format!(
                "{} {} {} {} {} {} {}",
                hn(c.get_name()),
                hn(&c.conversion_type.to_string()),
                match &c.coeffs_linear {
                    None => "!".to_string(),
                    Some(l) => format!("{} {}", dyadic(l.a), dyadic(l.b)),
                },
                match &c.coeffs {
                    None => "!".to_string(),
                    Some(k) => format!("{} {} {} {} {} {}", dyadic(k.a), dyadic(k.b), dyadic(k.c), dyadic(k.d), dyadic(k.e), dyadic(k.f)),
                },
                opt_name(c.compu_tab_ref.as_ref().map(|r| r.conversion_table.as_str())),
                opt_name(c.ref_unit.as_ref().map(|r| r.unit.as_str())),
                opt_name(c.status_string_ref.as_ref().map(|r| r.conversion_table.as_str()))
            )
        }));
        out.push_str(&section("CT", m.compu_tab.iter(), |b| hn(b.get_name())));
        out.push_str(&section("CV", m.compu_vtab.iter(), |b| hn(b.get_name())));
        out.push_str(&section("CR", m.compu_vtab_range.iter(), |b| hn(b.get_name())));
        out.push_str(&section("FN", m.function.iter(), |f| {
            format!(
                "{} {} {} {} {} {} {}",
                hn(f.get_name()),
                opt_list(f.in_measurement.as_ref().map(|d| &d.identifier_list)),
                opt_list(f.loc_measurement.as_ref().map(|d| &d.identifier_list)),
                opt_list(f.out_measurement.as_ref().map(|d| &d.identifier_list)),
                opt_list(f.def_characteristic.as_ref().map(|d| &d.identifier_list)),
                opt_list(f.ref_characteristic.as_ref().map(|d| &d.identifier_list)),
                opt_list(f.sub_function.as_ref().map(|d| &d.identifier_list))
            )
        }));
        out.push_str(&section("GR", m.group.iter(), |g| {
            format!(
                "{} {} {} {} {} {}",
                hn(g.get_name()),
                u8::from(g.root.is_some()),
                opt_list(g.ref_characteristic.as_ref().map(|d| &d.identifier_list)),
                opt_list(g.ref_measurement.as_ref().map(|d| &d.identifier_list)),
                opt_list(g.function_list.as_ref().map(|d| &d.name_list)),
                opt_list(g.sub_group.as_ref().map(|d| &d.identifier_list))
            )
        }));
        out.push_str(&section("RL", m.record_layout.iter(), |r| {
            format!(
                "{} {} {} {} {} {} {}",
                hn(r.get_name()),
                opt_dt(r.fnc_values.as_ref().map(|x| x.datatype)),
                opt_dt(r.axis_pts_x.as_ref().map(|x| x.datatype)),
                opt_dt(r.axis_pts_y.as_ref().map(|x| x.datatype)),
                opt_dt(r.axis_pts_z.as_ref().map(|x| x.datatype)),
                opt_dt(r.axis_pts_4.as_ref().map(|x| x.datatype)),
                opt_dt(r.axis_pts_5.as_ref().map(|x| x.datatype))
            )
        }));
        out.push_str(&section("TR", m.transformer.iter(), |t| {
            format!(
                "{} {} {} {}",
                hn(t.get_name()),
                hn(&t.inverse_transformer),
                opt_list(t.transformer_in_objects.as_ref().map(|d| &d.identifier_list)),
                opt_list(t.transformer_out_objects.as_ref().map(|d| &d.identifier_list))
            )
        }));
        out.push_str(&section("UN", m.unit.iter(), |b| hn(b.get_name())));
        out.push_str(" MS ");
        match &m.mod_par {
            None => out.push('!'),
            Some(mp) => {
                let v: Vec<String> = mp.memory_segment.iter().map(|s| s.get_name().to_string()).collect();
                out.push_str(&names(&v));
            }
        }
    }
    out
}

/// canonical text of the real report list, in order (`None`: a text the harness does not know - reported as a failure)
pub fn impl_reports(errs: &[A2lError], with_limits: bool) -> Result<String, String> {
    let mut v = vec![];
    for e in errs {
        match e {
            A2lError::CrossReferenceError { source_type, source_name, target_type, target_name, .. } => {
                v.push(format!("X|{}|{}|{}|{}", hn(source_type), hn(source_name), hn(target_type), hn(target_name)))
            }
            A2lError::ContentError { item_name, blockname, description, .. } => v.push(format!("C|{}|{}|{}", hn(item_name), hn(blockname), hn(description))),
            A2lError::LimitCheckError { item_name, blockname, lower_limit, upper_limit, calculated_lower_limit, calculated_upper_limit, .. } => {
                if with_limits {
                    v.push(format!(
                        "L|{}|{}|{}|{}|{}|{}",
                        hn(item_name),
                        hn(blockname),
                        dyadic(*lower_limit),
                        dyadic(*upper_limit),
                        dyadic(*calculated_lower_limit),
                        dyadic(*calculated_upper_limit)
                    ))
                }
            }
            A2lError::GroupStructureError { group_name, description, .. } => {
                let (cls, parents): (&str, Vec<&str>) = if let Some(p) = description.strip_prefix("has the ROOT attribute, but is also referenced as a sub-group by GROUPs ") {
                    ("root-multi", p.split(", ").collect())
                } else if let Some(p) = description.strip_prefix("has the ROOT attribute, but is also referenced as a sub-group by GROUP ") {
                    ("root-one", vec![p])
                } else if let Some(p) = description.strip_prefix("is referenced as a sub-group by multiple groups: ") {
                    ("multi", p.split(", ").collect())
                } else if description.starts_with("does not have the ROOT attribute, and is not referenced") {
                    ("orphan", vec![])
                } else {
                    return Err(format!("unknown GroupStructureError text: {description}"));
                };
                v.push(format!("G|{}|{}|{}", hn(group_name), cls, parents.iter().map(|p| hn(p)).collect::<Vec<_>>().join("+")))
            }
            other => return Err(format!("unexpected error kind from check(): {other}")),
        }
    }
    Ok(v.join(";"))
}

/// tie one loaded file: request for the model, ordered reports of the implementation
pub fn tie_file(rep: &mut Report, file: &A2lFile, with_limits: bool, input: &str) {
    match catch(|| file.check()) {
        Err(p) => {
            rep.fail("panic", input.to_string(), p);
            rep.tie(format!("chkfull {} {}", if with_limits { "L1" } else { "L0" }, project(file)), "PANIC".into());
        }
        Ok(errs) => match impl_reports(&errs, with_limits) {
            Ok(a) => rep.tie(format!("chkfull {} {}", if with_limits { "L1" } else { "L0" }, project(file)), a),
            Err(e) => rep.fail("infrastructure", input.to_string(), e),
        },
    }
}

// ------------------------------------------------------------------------------------------------------------------
// dedicated generator: small modules in which every branch of checker.rs is taken, with numbers for which the f64
// arithmetic of the limit tests is exact (8/16-bit raw types under non-identity conversions, integer or half-integer
// coefficients, power-of-two divisors), so that calculated limits can be compared exactly

const SMALL_DT: [&str; 4] = ["UBYTE", "SBYTE", "UWORD", "SWORD"];
const ALL_DT: [&str; 11] = ["UBYTE", "SBYTE", "UWORD", "SWORD", "ULONG", "SLONG", "A_UINT64", "A_INT64", "FLOAT16_IEEE", "FLOAT32_IEEE", "FLOAT64_IEEE"];

fn num(x: f64) -> String {
    if x == x.trunc() && x.abs() < 1e15 {
        format!("{}", x as i64)
    } else {
        format!("{x}")
    }
}

struct Pools {
    objects: Vec<String>,
    cms: Vec<String>,
    rls: Vec<String>,
    funcs: Vec<String>,
    groups: Vec<String>,
    tabs: Vec<String>,
    units: Vec<String>,
    segs: Vec<String>,
    typedefs: Vec<String>,
}

fn pick_ref(rng: &mut Rng, pool: &[String], dangling: u32) -> String {
    if pool.is_empty() || rng.chance(dangling, 100) {
        format!("zz{}", rng.below(4))
    } else {
        rng.pick(pool).clone()
    }
}

fn ref_list(rng: &mut Rng, pool: &[String], dangling: u32) -> Vec<String> {
    (0..rng.below(4)).map(|_| pick_ref(rng, pool, dangling)).collect()
}

fn limits(rng: &mut Rng) -> (f64, f64) {
    let c = [-70000.0, -40000.0, -32768.0, -1000.0, -129.0, -128.0, -10.0, -1.0, 0.0, 1.0, 10.0, 127.0, 128.0, 255.0, 256.0, 1000.0, 32767.0, 65535.0, 65536.0, 100000.0, 600000.0];
    let a = *rng.pick(&c);
    let b = *rng.pick(&c);
    if a <= b {
        (a, b)
    } else {
        (b, a)
    }
}

/// text of one module body; `dangling` = percentage of references that point nowhere
pub fn gen_module_text(rng: &mut Rng, dangling: u32) -> String {
    let dup = rng.chance(1, 4); // duplicate names inside lists (ItemList keeps the first for look-ups)
    let n = |rng: &mut Rng, p: &str, k: usize| -> Vec<String> { (0..rng.below(k + 1)).map(|i| format!("{p}{}", if dup && i > 0 && rng.chance(1, 4) { 0 } else { i })).collect() };
    let meas = n(rng, "m", 3);
    let chars = n(rng, "c", 3);
    let axes = n(rng, "a", 2);
    let blobs = n(rng, "b", 1);
    let insts = n(rng, "i", 2);
    let tchars = n(rng, "tc", 2);
    let tmeas = n(rng, "tm", 1);
    let taxes = n(rng, "ta", 1);
    let tblobs = n(rng, "tb", 1);
    let tstructs = n(rng, "ts", 3);
    let this_objs: Vec<String> = if rng.chance(1, 5) { vec!["THIS.x".to_string()] } else { vec![] };
    let mut objects: Vec<String> = vec![];
    for l in [&meas, &chars, &axes, &blobs, &insts, &this_objs] {
        objects.extend(l.iter().cloned());
    }
    let mut typedefs: Vec<String> = vec![];
    for l in [&tchars, &tmeas, &taxes, &tblobs, &tstructs] {
        typedefs.extend(l.iter().cloned());
    }
    let p = Pools {
        objects,
        cms: n(rng, "cm", 5),
        rls: n(rng, "rl", 3),
        funcs: n(rng, "f", 2),
        groups: n(rng, "g", 5),
        tabs: n(rng, "t", 3),
        units: n(rng, "u", 1),
        segs: n(rng, "seg", 1),
        typedefs,
    };
    let mut s = String::new();
    if rng.chance(3, 4) {
        s.push_str(" /begin MOD_PAR \"\"");
        for g in &p.segs {
            s.push_str(&format!(" /begin MEMORY_SEGMENT {g} \"\" DATA FLASH INTERN 0 0 -1 -1 -1 -1 -1 /end MEMORY_SEGMENT"));
        }
        s.push_str(" /end MOD_PAR");
    }
    // record layouts: small raw types only (a non-identity conversion may be applied to them)
    for r in &p.rls {
        s.push_str(&format!(" /begin RECORD_LAYOUT {r}"));
        if rng.chance(4, 5) {
            s.push_str(&format!(" FNC_VALUES 1 {} COLUMN_DIR DIRECT", rng.pick(&SMALL_DT)));
        }
        for (k, d) in ["X", "Y", "Z", "4", "5"].iter().enumerate() {
            if rng.chance(2, 3) {
                s.push_str(&format!(" AXIS_PTS_{d} {} {} INDEX_INCR DIRECT", k + 2, rng.pick(&SMALL_DT)));
            }
        }
        s.push_str(" /end RECORD_LAYOUT");
    }
    // conversions
    let half = [-8.0, -3.0, -1.0, -0.5, 0.0, 0.5, 1.0, 2.0, 7.0];
    for (k, c) in p.cms.iter().enumerate() {
        let kind = (k + rng.below(2)) % 7;
        let ty = ["IDENTICAL", "LINEAR", "RAT_FUNC", "FORM", "TAB_VERB", "LINEAR", "RAT_FUNC"][kind];
        s.push_str(&format!(" /begin COMPU_METHOD {c} \"\" {ty} \"%6.2\" \"\""));
        match kind {
            1 => s.push_str(&format!(" COEFFS_LINEAR {} {}", num(*rng.pick(&half)), num(rng.range(-100, 100) as f64))),
            2 => {
                // linear special case b != 0 a power of two, or a general one (not evaluated)
                if rng.chance(3, 4) {
                    let b = *rng.pick(&[-4.0, -2.0, -1.0, -0.5, 0.5, 1.0, 2.0, 4.0]);
                    s.push_str(&format!(" COEFFS 0 {} {} 0 0 {}", num(b), num(rng.range(-64, 64) as f64), num(*rng.pick(&[-2.0, -1.0, 1.0, 2.0, 3.0]))))
                } else {
                    s.push_str(&format!(" COEFFS {} 1 0 {} {} 1", rng.below(2), rng.below(2), rng.below(2)))
                }
            }
            _ => {}
        }
        if kind == 4 || rng.chance(1, 6) {
            s.push_str(&format!(" COMPU_TAB_REF {}", pick_ref(rng, &p.tabs, dangling)));
        }
        if rng.chance(1, 3) {
            s.push_str(&format!(" REF_UNIT {}", pick_ref(rng, &p.units, dangling)));
        }
        if rng.chance(1, 3) {
            s.push_str(&format!(" STATUS_STRING_REF {}", pick_ref(rng, &p.tabs, dangling)));
        }
        s.push_str(" /end COMPU_METHOD");
    }
    for (k, t) in p.tabs.iter().enumerate() {
        match k % 3 {
            0 => s.push_str(&format!(" /begin COMPU_TAB {t} \"\" TAB_INTP 1 0 0 /end COMPU_TAB")),
            1 => s.push_str(&format!(" /begin COMPU_VTAB {t} \"\" TAB_VERB 1 0 \"x\" /end COMPU_VTAB")),
            _ => s.push_str(&format!(" /begin COMPU_VTAB_RANGE {t} \"\" 1 0 1 \"x\" /end COMPU_VTAB_RANGE")),
        }
    }
    for u in &p.units {
        s.push_str(&format!(" /begin UNIT {u} \"\" \"\" DERIVED /end UNIT"));
    }
    let conv = |rng: &mut Rng| -> String { if rng.chance(1, 4) { "NO_COMPU_METHOD".to_string() } else { pick_ref(rng, &p.cms, dangling) } };
    let inq = |rng: &mut Rng| -> String { if rng.chance(1, 3) { "NO_INPUT_QUANTITY".to_string() } else { pick_ref(rng, &p.objects, dangling) } };
    let tail = |rng: &mut Rng, s: &mut String| {
        if rng.chance(1, 4) {
            s.push_str(&format!(" REF_MEMORY_SEGMENT {}", pick_ref(rng, &p.segs, dangling)));
        }
        if rng.chance(1, 3) {
            s.push_str(&format!(" /begin FUNCTION_LIST {} /end FUNCTION_LIST", ref_list(rng, &p.funcs, dangling).join(" ")));
        }
    };
    for m in &meas {
        // big raw types only without conversion (exactness)
        let c = conv(rng);
        let dt = if c == "NO_COMPU_METHOD" { *rng.pick(&ALL_DT) } else { *rng.pick(&SMALL_DT) };
        let (lo, hi) = limits(rng);
        s.push_str(&format!(" /begin MEASUREMENT {m} \"\" {dt} {c} 0 0 {} {}", num(lo), num(hi)));
        tail(rng, &mut s);
        s.push_str(" /end MEASUREMENT");
    }
    for m in &tmeas {
        let c = conv(rng);
        let dt = if c == "NO_COMPU_METHOD" { *rng.pick(&ALL_DT) } else { *rng.pick(&SMALL_DT) };
        let (lo, hi) = limits(rng);
        s.push_str(&format!(" /begin TYPEDEF_MEASUREMENT {m} \"\" {dt} {c} 0 0 {} {} /end TYPEDEF_MEASUREMENT", num(lo), num(hi)));
    }
    let axis_descrs = |rng: &mut Rng, typedef: bool| -> String {
        let mut s = String::new();
        let count = *rng.pick(&[0usize, 0, 1, 1, 2, 2, 3, 5, 6, 7]);
        for _ in 0..count {
            let attr = *rng.pick(&["STD_AXIS", "STD_AXIS", "COM_AXIS", "FIX_AXIS", "RES_AXIS", "CURVE_AXIS"]);
            let (lo, hi) = limits(rng);
            s.push_str(&format!(" /begin AXIS_DESCR {attr} {} {} 4 {} {}", inq(rng), conv(rng), num(lo), num(hi)));
            let this = |rng: &mut Rng| -> String {
                if typedef && rng.chance(1, 2) {
                    format!("THIS.{}", rng.pick(&["x", "y", "ax"]))
                } else if rng.chance(1, 8) {
                    "THIS.x".to_string()
                } else {
                    pick_ref(rng, &p.objects, dangling)
                }
            };
            if rng.chance(1, 2) {
                s.push_str(&format!(" AXIS_PTS_REF {}", this(rng)));
            }
            if rng.chance(1, 4) {
                s.push_str(&format!(" CURVE_AXIS_REF {}", this(rng)));
            }
            s.push_str(" /end AXIS_DESCR");
        }
        s
    };
    let ctypes = ["VALUE", "VAL_BLK", "ASCII", "CURVE", "MAP", "CUBOID", "CUBE_4", "CUBE_5"];
    for c in &chars {
        let (lo, hi) = limits(rng);
        s.push_str(&format!(" /begin CHARACTERISTIC {c} \"\" {} 0 {} 0 {} {} {}", rng.pick(&ctypes), pick_ref(rng, &p.rls, dangling), conv(rng), num(lo), num(hi)));
        s.push_str(&axis_descrs(rng, false));
        if rng.chance(1, 4) {
            s.push_str(&format!(" COMPARISON_QUANTITY {}", pick_ref(rng, &p.objects, dangling)));
        }
        if rng.chance(1, 4) {
            s.push_str(&format!(" /begin DEPENDENT_CHARACTERISTIC \"f\" {} /end DEPENDENT_CHARACTERISTIC", ref_list(rng, &p.objects, dangling).join(" ")));
        }
        if rng.chance(1, 4) {
            s.push_str(&format!(" /begin MAP_LIST {} /end MAP_LIST", ref_list(rng, &p.objects, dangling).join(" ")));
        }
        if rng.chance(1, 4) {
            s.push_str(&format!(" /begin VIRTUAL_CHARACTERISTIC \"f\" {} /end VIRTUAL_CHARACTERISTIC", ref_list(rng, &p.objects, dangling).join(" ")));
        }
        tail(rng, &mut s);
        s.push_str(" /end CHARACTERISTIC");
    }
    for c in &tchars {
        let (lo, hi) = limits(rng);
        s.push_str(&format!(" /begin TYPEDEF_CHARACTERISTIC {c} \"\" {} {} 0 {} {} {}", rng.pick(&ctypes), pick_ref(rng, &p.rls, dangling), conv(rng), num(lo), num(hi)));
        s.push_str(&axis_descrs(rng, true));
        s.push_str(" /end TYPEDEF_CHARACTERISTIC");
    }
    for a in axes.iter().chain(this_objs.iter()) {
        let (lo, hi) = limits(rng);
        s.push_str(&format!(" /begin AXIS_PTS {a} \"\" 0 {} {} 0 {} 4 {} {}", inq(rng), pick_ref(rng, &p.rls, dangling), conv(rng), num(lo), num(hi)));
        tail(rng, &mut s);
        s.push_str(" /end AXIS_PTS");
    }
    for a in &taxes {
        s.push_str(&format!(" /begin TYPEDEF_AXIS {a} \"\" {} {} 0 {} 4 0 1 /end TYPEDEF_AXIS", inq(rng), pick_ref(rng, &p.rls, dangling), conv(rng)));
    }
    for b in &blobs {
        s.push_str(&format!(" /begin BLOB {b} \"\" 0 4 /end BLOB"));
    }
    for b in &tblobs {
        s.push_str(&format!(" /begin TYPEDEF_BLOB {b} \"\" 4 /end TYPEDEF_BLOB"));
    }
    for i in &insts {
        s.push_str(&format!(" /begin INSTANCE {i} \"\" {} 0 /end INSTANCE", pick_ref(rng, &p.typedefs, dangling)));
    }
    for t in &tstructs {
        s.push_str(&format!(" /begin TYPEDEF_STRUCTURE {t} \"\" 8"));
        for k in 0..rng.below(4) {
            let cname = *rng.pick(&["x", "y", "ax", "q"]);
            s.push_str(&format!(" /begin STRUCTURE_COMPONENT {cname} {} {k} /end STRUCTURE_COMPONENT", pick_ref(rng, &p.typedefs, dangling)));
        }
        s.push_str(" /end TYPEDEF_STRUCTURE");
    }
    for f in &p.funcs {
        s.push_str(&format!(" /begin FUNCTION {f} \"\""));
        for tag in ["IN_MEASUREMENT", "LOC_MEASUREMENT", "OUT_MEASUREMENT", "DEF_CHARACTERISTIC", "REF_CHARACTERISTIC"] {
            if rng.chance(1, 3) {
                s.push_str(&format!(" /begin {tag} {} /end {tag}", ref_list(rng, &p.objects, dangling).join(" ")));
            }
        }
        if rng.chance(1, 2) {
            s.push_str(&format!(" /begin SUB_FUNCTION {} /end SUB_FUNCTION", ref_list(rng, &p.funcs, dangling).join(" ")));
        }
        s.push_str(" /end FUNCTION");
    }
    for g in &p.groups {
        s.push_str(&format!(" /begin GROUP {g} \"\"{}", if rng.chance(1, 3) { " ROOT" } else { "" }));
        if rng.chance(1, 3) {
            s.push_str(&format!(" /begin REF_CHARACTERISTIC {} /end REF_CHARACTERISTIC", ref_list(rng, &p.objects, dangling).join(" ")));
        }
        if rng.chance(1, 3) {
            s.push_str(&format!(" /begin REF_MEASUREMENT {} /end REF_MEASUREMENT", ref_list(rng, &p.objects, dangling).join(" ")));
        }
        if rng.chance(1, 4) {
            s.push_str(&format!(" /begin FUNCTION_LIST {} /end FUNCTION_LIST", ref_list(rng, &p.funcs, dangling).join(" ")));
        }
        if rng.chance(2, 3) {
            s.push_str(&format!(" /begin SUB_GROUP {} /end SUB_GROUP", ref_list(rng, &p.groups, dangling.max(10)).join(" ")));
        }
        s.push_str(" /end GROUP");
    }
    for (k, t) in ["tr0", "tr1"].iter().enumerate() {
        if rng.chance(1, 2) {
            let inv = if rng.chance(1, 2) { "NO_INVERSE_TRANSFORMER".to_string() } else { format!("tr{}", (k + rng.below(3)) % 3) };
            s.push_str(&format!(" /begin TRANSFORMER {t} \"1\" \"a\" \"b\" 10 ON_CHANGE {inv}"));
            if rng.chance(1, 2) {
                s.push_str(&format!(" /begin TRANSFORMER_IN_OBJECTS {} /end TRANSFORMER_IN_OBJECTS", ref_list(rng, &p.objects, dangling).join(" ")));
            }
            if rng.chance(1, 2) {
                s.push_str(&format!(" /begin TRANSFORMER_OUT_OBJECTS {} /end TRANSFORMER_OUT_OBJECTS", ref_list(rng, &p.objects, dangling).join(" ")));
            }
            s.push_str(" /end TRANSFORMER");
        }
    }
    s
}

pub fn gen_file_text(rng: &mut Rng, dangling: u32) -> String {
    let nmod = *rng.pick(&[1usize, 1, 1, 2]);
    let mut s = String::from("ASAP2_VERSION 1 71 /begin PROJECT p \"\"");
    for k in 0..nmod {
        s.push_str(&format!(" /begin MODULE mod{k} \"\"{} /end MODULE", gen_module_text(rng, dangling)));
    }
    s.push_str(" /end PROJECT");
    s
}

/// the `structural` family of C11 / C12
pub fn run_family(rep: &mut Report, rng: &mut Rng, count: usize) {
    for k in 0..count {
        let dangling = [0u32, 10, 30][k % 3];
        let text = gen_file_text(rng, dangling);
        let input = hex(text.as_bytes());
        let file = match crate::a2lgen::load(&text) {
            Ok(f) => f,
            Err(e) => {
                rep.fail("generator", input, e);
                continue;
            }
        };
        rep.case(&text, true);
        rep.bump("structural");
        let before = file.write_to_string();
        tie_file(rep, &file, true, &input);
        if file.write_to_string() != before {
            rep.fail("impure", input.clone(), "check() modified the model".into());
        }
        if k % 97 == 0 {
            rep.sample(format!("structural: {}", &text[..text.len().min(400)]));
        }
        if let Ok(errs) = catch(|| file.check()) {
            for e in &errs {
                rep.bump(match e {
                    A2lError::CrossReferenceError { .. } => "structural:xref",
                    A2lError::ContentError { .. } => "structural:content",
                    A2lError::LimitCheckError { .. } => "structural:limit",
                    A2lError::GroupStructureError { .. } => "structural:group",
                    _ => "structural:other",
                });
            }
            if errs.is_empty() {
                rep.bump("structural:clean");
            }
        }
    }
}
