//! C01: save / reload stability. Oracle on the real code: load(write(M)) == M, write is a textual fixpoint, k cycles.
use crate::common::*;
use crate::docgen::*;
use crate::tree::*;

pub fn cycle_check(text: &str, strict: bool, cycles: usize) -> Result<(), (String, String)> {
    // returns Err((kind, detail)) on a violation of the property; inputs that are not accepted are not in the domain
    let (m0, _) = match load(text, strict) {
        Loaded::Ok(f, l) => (f, l),
        Loaded::Panic(p) => return Err(("panic".into(), format!("load panicked: {p}"))),
        Loaded::Err(_) => return Ok(()),
    };
    cycle_from_model(m0, strict, cycles)
}

/// the same for a model that is already in memory (loaded and then edited through the API)
/// how many `GenericIfData::Double(off, v)` with an integral value the `{:#?}` text of a model shows (the trigger of the known
/// finding `ifdata-integral-float`: such a value is written without decimal point and, in uninterpreted IF_DATA, read back
/// as an integer)
fn integral_doubles(dump: &str) -> usize {
    let lines: Vec<&str> = dump.lines().map(|l| l.trim()).collect();
    (0..lines.len().saturating_sub(3)).filter(|&i| {
        lines[i] == "Double("
            && lines[i + 3].starts_with(')')
            && lines[i + 2].strip_suffix(".0,").map_or(false, |v| !v.is_empty() && v.trim_start_matches('-').chars().all(|c| c.is_ascii_digit()))
    })
    .count()
}

pub fn cycle_from_model(m0: a2lfile::A2lFile, strict: bool, cycles: usize) -> Result<(), (String, String)> {
    let w0 = match catch(|| m0.write_to_string()) {
        Ok(w) => w,
        Err(p) => return Err(("panic".into(), format!("write panicked: {p}"))),
    };
    let mut prev_model = m0;
    let mut prev_text = w0;
    for k in 1..=cycles {
        // reload non-strict, and in the mode of the original load when that was strict
        let modes: &[bool] = if strict { &[false, true] } else { &[false] };
        let mut next = None;
        for &mode in modes {
            match load(&prev_text, mode) {
                Loaded::Ok(f, log) => {
                    // the raw A2ML text is written with LF line ends whatever the input used (line ends are layout)
                    let eol = |m: &a2lfile::A2lFile| {
                        let mut m = m.clone();
                        for module in &mut m.project.module {
                            if let Some(a) = &mut module.a2ml {
                                a.a2ml_text = a.a2ml_text.replace("\r\n", "\n");
                            }
                        }
                        m
                    };
                    if f != prev_model && eol(&f) != eol(&prev_model) {
                        // A2ML text that follows the keyword without white space gets a separator on the first write
                        let adj = |m: &a2lfile::A2lFile| {
                            let mut m = eol(m);
                            for module in &mut m.project.module {
                                if let Some(a) = &mut module.a2ml {
                                    a.a2ml_text = a.a2ml_text.trim_start().to_string();
                                }
                            }
                            m
                        };
                        if adj(&f) == adj(&prev_model) {
                            return Err(("a2ml-adjacent-text".into(), format!("cycle {k} (strict={mode}): the A2ML text gained leading white space")));
                        }
                        // is the order of RESERVED entries (position-restricted, repeatable) the only difference?
                        let norm = |m: &a2lfile::A2lFile| {
                            let mut m = eol(m);
                            for module in &mut m.project.module {
                                for rl in &mut module.record_layout {
                                    rl.reserved.sort_by_key(|r| r.position);
                                }
                            }
                            m
                        };
                        // known finding `ifdata-integral-float`: the only difference is a float with an integral value in
                        // generic IF_DATA that came back as the integer of the same value (decimal notation)
                        let kind = if norm(&f) == norm(&prev_model) {
                            "reserved-order"
                        } else if integral_doubles(&format!("{:#?}", prev_model)) > integral_doubles(&format!("{f:#?}")) && {
                            // ... and nothing else: the reloaded model is stable from here on (model and text)
                            let w2 = f.write_to_string();
                            w2 == prev_text && matches!(load(&w2, mode), Loaded::Ok(f3, _) if f3 == f)
                        } {
                            "ifdata-integral-float"
                        } else {
                            "model"
                        };
                        return Err((kind.into(), format!("cycle {k} (strict={mode}): reloaded model differs from the model that was written")));
                    }
                    if mode && !log.is_empty() {
                        return Err(("reload-diagnostics".into(), format!("cycle {k}: strict reload of the written text reports {}", log_text(&log))));
                    }
                    next = Some(f);
                }
                Loaded::Err(e) => return Err(("reload".into(), format!("cycle {k} (strict={mode}): written text does not load: {e}"))),
                Loaded::Panic(p) => return Err(("panic".into(), format!("cycle {k}: reload panicked: {p}"))),
            }
        }
        let f = next.unwrap();
        let w = f.write_to_string();
        if w != prev_text {
            let (a, b) = first_diff(&prev_text, &w);
            return Err(("fixpoint".into(), format!("cycle {k}: written text is not a fixpoint ({} -> {} bytes); first difference at line {a}: {b}", prev_text.len(), w.len())));
        }
        prev_model = f;
        prev_text = w;
    }
    Ok(())
}

pub fn first_diff(a: &str, b: &str) -> (usize, String) {
    for (i, (x, y)) in a.lines().zip(b.lines()).enumerate() {
        if x != y {
            return (i + 1, format!("{x:?} vs {y:?}"));
        }
    }
    (a.lines().count().min(b.lines().count()) + 1, "one text is a prefix of the other".into())
}

pub fn run(args: &Args) -> Report {
    let mut rep = Report::new(
        "C01",
        "documents generated from the regenerated grammar table (every element kind reachable from PROJECT, optional sub-elements with p=0.3, repeats, decimal/hex/boundary integers, float spellings incl. thresholds, identifiers with dots and indices, strings with escapes / Unicode / non-BMP, both comment kinds between block-level elements) x 3 layouts x {LF, CRLF} x strict/non-strict; oracle: 3 load->write cycles; tie: status, diagnostics and written bytes vs the Lean model. non-trivial = accepted document with >= 20 tokens; distinct = distinct texts",
    );
    let g = match Grammar::load() {
        Ok(g) => g,
        Err(e) => {
            rep.fail("infrastructure", String::new(), format!("grammar table missing: {e}"));
            return rep;
        }
    };
    let mut rng = Rng::new(args.seed);
    let mut texts: Vec<(String, bool, &'static str)> = vec![];
    if let Some(input) = &args.replay {
        let mut it = input.split_whitespace();
        let strict = it.next() == Some("1");
        texts.push((String::from_utf8_lossy(&unhex(it.next().unwrap_or("-"))).into_owned(), strict, "replay"));
    } else {
        let n = if args.thorough { 30000 } else { 1500 };
        for i in 0..n {
            let opts = GenOpts { opt_prob: [10, 30, 60][i % 3], max_repeat: 1 + i % 3, specials: i % 4 == 1, dup_names: i % 5 == 2, ..GenOpts::default() };
            let toks = gen_document(&g, &mut rng, opts);
            let layout = [Layout::Canonical, Layout::Wild, Layout::Dense][(i / 3) % 3];
            let crlf = i % 7 == 3;
            let text = render(&toks, &mut rng, layout, crlf);
            texts.push((text, i % 2 == 0, ["canonical", "wild", "dense"][(i / 3) % 3]));
        }
    }
    // single-token mutations and truncations of some documents: only the tie uses them here (errors, diagnostics and
    // their lines must agree between model and implementation); the cycle oracle applies to whatever is still accepted
    if args.replay.is_none() {
        let nmut = if args.thorough { 400 } else { 60 };
        for d in 0..nmut {
            let toks = gen_document(&g, &mut rng, GenOpts { opt_prob: 25, specials: d % 3 == 0, ..GenOpts::default() });
            let text = render(&toks, &mut rng, Layout::Canonical, false);
            for m in crate::soup::token_mutations(&text, &mut rng, 12) {
                texts.push((m, d % 2 == 0, "mutation"));
            }
            let step = (text.len() / 12).max(1);
            for p in crate::soup::prefixes(&text, step) {
                texts.push((p, d % 2 == 1, "prefix"));
            }
        }
    }
    // models edited through the API: new elements pushed into a loaded file (1 .. 60 of one kind: new elements have no
    // position of their own and keep their order only through the writer), and files written with a banner
    if args.replay.is_none() {
        let tmp = std::env::temp_dir().join(format!("a2lverif_c01_{}", std::process::id()));
        let _ = std::fs::create_dir_all(&tmp);
        let nedit = if args.thorough { 600 } else { 60 };
        for k in 0..nedit {
            let toks = gen_document(&g, &mut rng, GenOpts { opt_prob: 20, ..GenOpts::default() });
            let text = render(&toks, &mut rng, Layout::Canonical, false);
            let Loaded::Ok(mut file, _) = load(&text, false) else { continue };
            if file.project.module.is_empty() {
                continue;
            }
            let n = [1usize, 5, 30, 60][k % 4];
            for j in 0..n {
                crate::c14::push_new(&mut file, (k / 4 + if k % 3 == 0 { j } else { 0 }) % 7, &format!("vnew_{k}_{j:03}"));
            }
            rep.case(&(k, &text), true);
            rep.bump("layout:edited");
            if let Err((kind, detail)) = cycle_from_model(file.clone(), false, 3) {
                rep.fail(&kind, format!("0 {}", hex(text.as_bytes())), format!("after pushing {n} new elements: {detail}"));
            }
            if k % 6 == 0 {
                // write(path, banner) -> load(path) cycles: the file must not drift
                let path = tmp.join("banner.a2l");
                let mut cur = file;
                let mut sizes = vec![];
                for _ in 0..4 {
                    if cur.write(&path, Some("written by the C01 check")).is_err() {
                        break;
                    }
                    sizes.push(std::fs::metadata(&path).map(|m| m.len()).unwrap_or(0));
                    match a2lfile::load(&path, None, false) {
                        Ok((f, _)) => cur = f,
                        Err(e) => {
                            rep.fail("reload", format!("0 {}", hex(text.as_bytes())), format!("file written with a banner does not load: {e}"));
                            break;
                        }
                    }
                }
                rep.bump("layout:banner");
                if sizes.len() >= 3 && sizes[1..].windows(2).any(|w| w[0] != w[1]) {
                    rep.fail("fixpoint", format!("0 {}", hex(text.as_bytes())), format!("file written with a banner drifts over load -> write cycles: sizes {sizes:?}"));
                }
            }
        }
        // removing the last child of a block whose /end stood on the child's line, behind a // comment
        for (k, body) in ["  // note\n  READ_WRITE /end MEASUREMENT", "  // note\n  FORMAT \"http://x\" READ_WRITE /end MEASUREMENT", "  /* a // b */ READ_WRITE /end MEASUREMENT", "  FORMAT \"%2.1\" // note\n  READ_WRITE /end MEASUREMENT", "  /* a\n \" */ // c\n  READ_WRITE /end MEASUREMENT", "  /* a\n // b */ READ_WRITE /end MEASUREMENT"].iter().enumerate() {
            let text = format!("ASAP2_VERSION 1 71\n/begin PROJECT p \"\"\n/begin MODULE m \"\"\n/begin MEASUREMENT x \"\" UBYTE NO_COMPU_METHOD 0 0 0 1\n{body}\n/begin MEASUREMENT y \"\" UBYTE NO_COMPU_METHOD 0 0 0 1 /end MEASUREMENT\n/end MODULE\n/end PROJECT\n");
            if let Loaded::Ok(mut file, _) = load(&text, false) {
                file.project.module[0].measurement[0].read_write = None;
                rep.case(&(k, &text), true);
                rep.bump("layout:edited");
                if let Err((kind, detail)) = cycle_from_model(file, false, 2) {
                    rep.fail(&kind, format!("0 {}", hex(text.as_bytes())), format!("after removing the last child of a block: {detail}"));
                }
            }
        }
        // numeric fields set through the API to every boundary value, in fields that were loaded in hexadecimal and in
        // decimal notation (a negative value of a hexadecimal signed field is written as two's complement)
        for (k, hexa) in [true, false].into_iter().enumerate() {
            let n = |v: i64| if hexa { format!("0x{v:X}") } else { v.to_string() };
            let text = format!("ASAP2_VERSION 1 71\n/begin PROJECT p \"\"\n/begin MODULE m \"\"\n/begin MOD_PAR \"\" ECU_CALIBRATION_OFFSET {} /begin MEMORY_SEGMENT seg \"\" DATA FLASH INTERN {} {} {} {} {} {} {} /end MEMORY_SEGMENT /end MOD_PAR\n/begin MEASUREMENT x \"\" UBYTE NO_COMPU_METHOD 0 0 0 1 ECU_ADDRESS_EXTENSION {} SYMBOL_LINK \"sym\" {} /end MEASUREMENT\n/end MODULE\n/end PROJECT\n", n(16), n(256), n(32), n(1), n(2), n(3), n(4), n(5), n(127), n(8));
            let Loaded::Ok(file, _) = load(&text, false) else {
                rep.fail("generator", format!("0 {}", hex(text.as_bytes())), "numeric scenario does not load".into());
                continue;
            };
            for (j, v) in [-1i64, i16::MIN as i64, i16::MAX as i64, i32::MIN as i64, i32::MAX as i64, -4096, 0, 255].into_iter().enumerate() {
                let mut f = file.clone();
                {
                    let m = &mut f.project.module[0];
                    if let Some(mp) = &mut m.mod_par {
                        if let Some(o) = &mut mp.ecu_calibration_offset {
                            o.offset = v as i32;
                        }
                        for seg in &mut mp.memory_segment {
                            seg.offset = [v as i32, 0, -1, v as i32, 1];
                        }
                    }
                    for me in &mut m.measurement {
                        if let Some(e) = &mut me.ecu_address_extension {
                            e.extension = v as i16;
                        }
                        if let Some(s) = &mut me.symbol_link {
                            s.offset = v as i32;
                        }
                    }
                }
                rep.case(&(k, j, "numeric-edit"), true);
                rep.bump("layout:edited-numbers");
                if let Err((kind, detail)) = cycle_from_model(f, false, 3) {
                    rep.fail(&kind, format!("0 {}", hex(text.as_bytes())), format!("after setting the signed fields of a file in {} notation to {v}: {detail}", if hexa { "hexadecimal" } else { "decimal" }));
                }
            }
        }
        // known finding (witness): a float with an integral value inside UNINTERPRETED IF_DATA is written without decimal
        // point or exponent (`5.0` -> `5`, `1e3` -> `1000`) and read back as an integer: the reloaded model differs
        // (GenericIfData::Long instead of ::Double), the text is stable. Only this scenario is classified; the same
        // scenario failing in another way (text not a fixpoint, load error) keeps its own kind.
        for (k, nums) in ["5.0 1e3 2.5", "-3.0", "/begin B 100.0 /end B 0.5"].iter().enumerate() {
            let text = format!("ASAP2_VERSION 1 71\n/begin PROJECT p \"\"\n/begin MODULE m \"\"\n/begin IF_DATA VENDOR {nums} /end IF_DATA\n/end MODULE\n/end PROJECT\n");
            if let Loaded::Ok(file, _) = load(&text, false) {
                rep.case(&(k, "integral-float"), true);
                rep.bump("finding:ifdata-integral-float");
                if let Err((kind, detail)) = cycle_from_model(file, false, 3) {
                    let kind = if kind == "model" { "ifdata-integral-float".to_string() } else { kind };
                    rep.fail(&kind, format!("0 {}", hex(text.as_bytes())), format!("float with an integral value in uninterpreted IF_DATA: {detail}"));
                }
            }
        }
        let _ = std::fs::remove_dir_all(&tmp);
    }
    for (i, (text, strict, family)) in texts.iter().enumerate() {
        let accepted = matches!(load(text, *strict), Loaded::Ok(..));
        rep.case(text, accepted && text.split_whitespace().count() >= 20);
        rep.bump(&format!("layout:{family}"));
        rep.bump(if accepted { "accepted" } else { "rejected" });
        rep.bump(if text.contains("\r\n") { "eol:crlf" } else { "eol:lf" });
        if i % 301 == 0 {
            rep.sample(text.chars().take(300).collect());
        }
        if let Err((kind, detail)) = cycle_check(text, *strict, 3) {
            rep.fail(&kind, format!("{} {}", u8::from(*strict), hex(text.as_bytes())), detail);
        }
        if let Some((req, ans)) = tie_case(text, *strict) {
            rep.tie(req, ans);
        }
    }
    rep
}
