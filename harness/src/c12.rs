//! C12: limit plausibility. Builds one-carrier A2L modules as text, runs the real `check()`, and
//!  (oracle) compares the error / no-error decision with the property statement evaluated independently in f64
//!          on placements that are clearly inside / clearly outside the expected physical range;
//!  (tie)    emits the same case for the Lean model (exact rationals): decision always, calculated limits when the
//!           case lies on the exactly-representable grid.
use crate::common::*;
use a2lfile::A2lError;

const DTS: [(&str, f64, f64); 11] = [
    ("UBYTE", 0.0, 255.0),
    ("SBYTE", -128.0, 127.0),
    ("UWORD", 0.0, 65535.0),
    ("SWORD", -32768.0, 32767.0),
    ("ULONG", 0.0, 4294967295.0),
    ("SLONG", -2147483648.0, 2147483647.0),
    ("A_UINT64", 0.0, 18446744073709551615.0),
    ("A_INT64", -9223372036854775808.0, 9223372036854775807.0),
    ("FLOAT16_IEEE", -65504.0, 65504.0),
    ("FLOAT32_IEEE", f32::MIN as f64, f32::MAX as f64),
    ("FLOAT64_IEEE", f64::MIN, f64::MAX),
];
const CARRIERS: [&str; 5] = ["MEASUREMENT", "CHARACTERISTIC", "AXIS_PTS", "AXIS_DESCR", "TYPEDEF_MEASUREMENT"];

#[derive(Clone, Debug)]
enum Conv {
    Absent,        // NO_COMPU_METHOD
    Dangling,      // name that does not resolve
    Direct(&'static str), // IDENTICAL TAB_INTP TAB_NOINTP TAB_VERB
    Form,
    Linear(Option<(f64, f64)>),
    RatFunc(Option<[f64; 6]>),
}

fn fnum(x: f64) -> String {
    // shortest text that parses back to the same f64
    format!("{x:e}")
}

/// exact dyadic text m:e with m odd (or 0:0)
pub fn dyadic(x: f64) -> String {
    if x == 0.0 {
        return "0:0".into();
    }
    if !x.is_finite() {
        return if x.is_nan() { "nan".into() } else if x > 0.0 { "inf".into() } else { "-inf".into() };
    }
    let bits = x.to_bits();
    let neg = (bits >> 63) == 1;
    let exp = ((bits >> 52) & 0x7ff) as i64;
    let frac = bits & ((1u64 << 52) - 1);
    let (mut m, mut e) = if exp == 0 { (frac, -1074i64) } else { (frac | (1u64 << 52), exp - 1075) };
    while m % 2 == 0 {
        m /= 2;
        e += 1;
    }
    format!("{}{}:{}", if neg { "-" } else { "" }, m, e)
}

fn a2l_text(carrier: usize, dt: &str, conv: &Conv, lo: f64, hi: f64) -> String {
    let (cmref, cmdef) = match conv {
        Conv::Absent => ("NO_COMPU_METHOD".to_string(), String::new()),
        Conv::Dangling => ("nonexistent".to_string(), String::new()),
        Conv::Direct(kind) => ("cm".to_string(), format!("/begin COMPU_METHOD cm \"\" {kind} \"%6.2\" \"u\" /end COMPU_METHOD")),
        Conv::Form => ("cm".to_string(), "/begin COMPU_METHOD cm \"\" FORM \"%6.2\" \"u\" /begin FORMULA \"X1*2\" /end FORMULA /end COMPU_METHOD".to_string()),
        Conv::Linear(c) => (
            "cm".to_string(),
            format!(
                "/begin COMPU_METHOD cm \"\" LINEAR \"%6.2\" \"u\" {} /end COMPU_METHOD",
                c.map_or(String::new(), |(a, b)| format!("COEFFS_LINEAR {} {}", fnum(a), fnum(b)))
            ),
        ),
        Conv::RatFunc(c) => (
            "cm".to_string(),
            format!(
                "/begin COMPU_METHOD cm \"\" RAT_FUNC \"%6.2\" \"u\" {} /end COMPU_METHOD",
                c.map_or(String::new(), |c| format!("COEFFS {}", c.iter().map(|x| fnum(*x)).collect::<Vec<_>>().join(" ")))
            ),
        ),
    };
    let (l, h) = (fnum(lo), fnum(hi));
    let rl = format!("/begin RECORD_LAYOUT rl FNC_VALUES 1 {dt} COLUMN_DIR DIRECT AXIS_PTS_X 2 {dt} INDEX_INCR DIRECT /end RECORD_LAYOUT");
    let body = match carrier {
        0 => format!("/begin MEASUREMENT x \"\" {dt} {cmref} 0 0 {l} {h} /end MEASUREMENT"),
        1 => format!("{rl}\n/begin CHARACTERISTIC x \"\" VALUE 0x0 rl 0 {cmref} {l} {h} /end CHARACTERISTIC"),
        2 => format!("{rl}\n/begin AXIS_PTS x \"\" 0x0 NO_INPUT_QUANTITY rl 0 {cmref} 5 {l} {h} /end AXIS_PTS"),
        // the STD_AXIS is the only axis of a CURVE, or (every second limit pair) the second axis of a MAP behind a
        // FIX_AXIS: its axis points then are AXIS_PTS_Y, whose data type differs from that of AXIS_PTS_X
        3 if (lo.to_bits() ^ hi.to_bits()) & 1 == 1 => {
            let other = if dt == "UBYTE" { "SWORD" } else { "UBYTE" };
            format!("/begin RECORD_LAYOUT rl FNC_VALUES 1 {dt} COLUMN_DIR DIRECT AXIS_PTS_X 2 {other} INDEX_INCR DIRECT AXIS_PTS_Y 3 {dt} INDEX_INCR DIRECT /end RECORD_LAYOUT\n/begin CHARACTERISTIC x \"\" MAP 0x0 rl 0 NO_COMPU_METHOD {} {} /begin AXIS_DESCR FIX_AXIS NO_INPUT_QUANTITY NO_COMPU_METHOD 5 {} {} FIX_AXIS_PAR_DIST 0 1 5 /end AXIS_DESCR /begin AXIS_DESCR STD_AXIS NO_INPUT_QUANTITY {cmref} 5 {l} {h} /end AXIS_DESCR /end CHARACTERISTIC",
                     fnum(f64::MIN), fnum(f64::MIN), fnum(f64::MIN), fnum(f64::MIN))
        }
        3 => format!("{rl}\n/begin CHARACTERISTIC x \"\" CURVE 0x0 rl 0 NO_COMPU_METHOD {} {} /begin AXIS_DESCR STD_AXIS NO_INPUT_QUANTITY {cmref} 5 {l} {h} /end AXIS_DESCR /end CHARACTERISTIC",
                     fnum(f64::MIN), fnum(f64::MIN)),
        _ => format!("/begin TYPEDEF_MEASUREMENT x \"\" {dt} {cmref} 0 0 {l} {h} /end TYPEDEF_MEASUREMENT"),
    };
    format!("ASAP2_VERSION 1 71\n/begin PROJECT p \"\"\n/begin MODULE m \"\"\n{cmdef}\n{body}\n/end MODULE\n/end PROJECT\n")
}

/// run the implementation: Some((calc_lo, calc_hi)) if a LimitCheckError was reported for the carrier, None if not
fn impl_decision(carrier: usize, dt: &str, conv: &Conv, lo: f64, hi: f64) -> Result<Option<(f64, f64)>, String> {
    let text = a2l_text(carrier, dt, conv, lo, hi);
    let r = catch(|| {
        let (file, _log) = a2lfile::load_from_string(&text, None, false).map_err(|e| format!("load error: {e}"))?;
        let before = file.write_to_string();
        let errs = file.check();
        if file.write_to_string() != before {
            return Err("check() modified the model".to_string());
        }
        let mut found = None;
        for e in &errs {
            if let A2lError::LimitCheckError { blockname, calculated_lower_limit, calculated_upper_limit, .. } = e {
                if blockname == CARRIERS[carrier] {
                    found = Some((*calculated_lower_limit, *calculated_upper_limit));
                }
            }
        }
        Ok(found)
    });
    match r {
        Ok(v) => v,
        Err(p) => Err(format!("panic: {p}")),
    }
}

/// the expected physical range by the property statement, computed independently (f64); None = not evaluated
/// (any limits are acceptable: FORM, general RAT_FUNC, and the constant RAT_FUNC with b = 0) ; Err is not produced any more
fn expected_range(dtlim: (f64, f64), conv: &Conv) -> Result<Option<(f64, f64)>, ()> {
    let (lo, hi) = dtlim;
    Ok(match conv {
        Conv::Absent | Conv::Dangling | Conv::Direct(_) | Conv::Linear(None) | Conv::RatFunc(None) => Some((lo, hi)),
        Conv::Form => None,
        Conv::Linear(Some((a, b))) => {
            let (p, q) = (a * lo + b, a * hi + b);
            Some((p.min(q), p.max(q)))
        }
        Conv::RatFunc(Some(c)) => {
            if c[0] == 0.0 && c[3] == 0.0 && c[4] == 0.0 && c[5] != 0.0 {
                if c[1] == 0.0 {
                    // a constant: nothing to invert, not evaluated
                    return Ok(None);
                }
                // INT = (b*PHYS + c)/f  =>  PHYS = (f*INT - c)/b
                let inv = |y: f64| (c[5] * (y / c[1])) - c[2] / c[1];
                let (p, q) = (inv(lo), inv(hi));
                Some((p.min(q), p.max(q)))
            } else {
                None
            }
        }
    })
}

pub fn undyadic(s: &str) -> Option<f64> {
    let (m, e) = s.split_once(':')?;
    let m: i64 = m.parse().ok()?;
    let e: i32 = e.parse().ok()?;
    // m has at most 53 bits, the result is exact (two steps avoid powi overflow for subnormal exponents)
    let h = e / 2;
    Some(m as f64 * 2f64.powi(h) * 2f64.powi(e - h))
}

/// like `conv_request`, but keeps the distinction the model does not need (for replay)
fn conv_request_full(conv: &Conv) -> String {
    match conv {
        Conv::Dangling => "dangling".into(),
        Conv::Direct(k) => format!("direct:{k}"),
        c => conv_request(c),
    }
}

fn parse_case(line: &str) -> Option<(Case, f64, f64)> {
    let p: Vec<&str> = line.split_whitespace().collect();
    if p.len() < 7 || p[0] != "lim" {
        return None;
    }
    let exact = p[1] == "exact";
    let carrier = CARRIERS.iter().position(|c| *c == p[2])?;
    let dt = DTS.iter().position(|d| d.0 == p[3])?;
    let nums: Vec<f64> = p[5..].iter().filter_map(|x| undyadic(x)).collect();
    let (conv, used) = match p[4] {
        "absent" => (Conv::Absent, 0),
        "dangling" => (Conv::Dangling, 0),
        "form" => (Conv::Form, 0),
        "linear0" => (Conv::Linear(None), 0),
        "ratfunc0" => (Conv::RatFunc(None), 0),
        "linear" => (Conv::Linear(Some((*nums.first()?, *nums.get(1)?))), 2),
        "ratfunc" => (Conv::RatFunc(Some([nums[0], nums[1], nums[2], nums[3], nums[4], *nums.get(5)?])), 6),
        k if k.starts_with("direct") => {
            let kinds = ["IDENTICAL", "TAB_INTP", "TAB_NOINTP", "TAB_VERB"];
            let kk = k.split_once(':').map_or("IDENTICAL", |x| x.1);
            (Conv::Direct(kinds.iter().find(|x| **x == kk).copied().unwrap_or("IDENTICAL")), 0)
        }
        _ => return None,
    };
    Some((Case { carrier, dt, conv, exact }, *nums.get(used)?, *nums.get(used + 1)?))
}

fn conv_request(conv: &Conv) -> String {
    match conv {
        Conv::Absent | Conv::Dangling => "absent".into(),
        Conv::Direct(_) => "direct".into(),
        Conv::Form => "form".into(),
        Conv::Linear(None) => "linear0".into(),
        Conv::Linear(Some((a, b))) => format!("linear {} {}", dyadic(*a), dyadic(*b)),
        Conv::RatFunc(None) => "ratfunc0".into(),
        Conv::RatFunc(Some(c)) => format!("ratfunc {}", c.iter().map(|x| dyadic(*x)).collect::<Vec<_>>().join(" ")),
    }
}

struct Case {
    carrier: usize,
    dt: usize,
    conv: Conv,
    exact: bool,
}

/// placements of declared limits relative to an expected range
fn placements(range: Option<(f64, f64)>, rng: &mut Rng) -> Vec<(&'static str, f64, f64, Option<bool>)> {
    // (label, lo, hi, expected error by the property: Some(true/false), None = not stated)
    let mut v = vec![("impossible", f64::MIN, f64::MAX, None)];
    match range {
        None => {
            v[0].3 = Some(false);
            v.push(("any", -1e300 * (rng.below(9) as f64 + 1.0), 1e300, Some(false)));
            v.push(("any", 0.0, 1.0, Some(false)));
        }
        Some((l, u)) if l.is_finite() && u.is_finite() => {
            let w = (u - l).abs().max(l.abs()).max(u.abs()).max(1e-300);
            let m = 1e-3 * w; // clear margin: three orders of magnitude above the 1e-6 tolerance
            if !(l == f64::MIN && u == f64::MAX) {
                v[0].3 = Some(true);
            }
            v.push(("exact", l, u, Some(false)));
            if (l + m) <= (u - m) {
                v.push(("inside", l + m, u - m, Some(false)));
            }
            let below = l - m;
            let above = u + m;
            if below.is_finite() && below < l {
                v.push(("below", below, u, Some(true)));
            }
            if above.is_finite() && above > u {
                v.push(("above", l, above, Some(true)));
            }
            if below.is_finite() && above.is_finite() && below < l && above > u {
                v.push(("both", below, above, Some(true)));
            }
            // the documented relative tolerance (1e-6 of the bound itself): outside by a tenth of it is accepted, outside
            // by ten times it is reported - for every carrier
            for (bound_is_lower, b) in [(true, l), (false, u)] {
                if b == 0.0 || !(b.abs() * 1e-5).is_normal() {
                    continue;
                }
                let (near, far) = (b.abs() * 1e-7, b.abs() * 1e-5);
                let (p_near, p_far) = if bound_is_lower { (b - near, b - far) } else { (b + near, b + far) };
                if !(p_near.is_finite() && p_far.is_finite()) || p_near == b {
                    continue;
                }
                if bound_is_lower {
                    v.push(("tol-within-lower", p_near, u, Some(false)));
                    v.push(("tol-beyond-lower", p_far, u, Some(true)));
                } else {
                    v.push(("tol-within-upper", l, p_near, Some(false)));
                    v.push(("tol-beyond-upper", l, p_far, Some(true)));
                }
            }
        }
        Some(_) => {
            // range overflowed to infinity in f64: every finite declared limit is inside
            v[0].3 = Some(false);
            v.push(("any", -1e300, 1e300, Some(false)));
        }
    }
    v
}

fn run_case(rep: &mut Report, case: &Case, rng: &mut Rng, only: Option<(f64, f64)>) {
    let (dtname, dlo, dhi) = DTS[case.dt];
    let expected = expected_range((dlo, dhi), &case.conv);
    let in_quantifier = expected.is_ok();
    let range = expected.unwrap_or(None);
    for (label, lo, hi, want) in placements(range, rng) {
        if let Some((olo, ohi)) = only {
            if (lo, hi) != (olo, ohi) {
                continue;
            }
        }
        let inp = format!(
            "lim {} {} {} {} {} {}",
            if case.exact { "exact" } else { "approx" },
            CARRIERS[case.carrier],
            dtname,
            conv_request_full(&case.conv),
            dyadic(lo),
            dyadic(hi)
        );
        let got = impl_decision(case.carrier, dtname, &case.conv, lo, hi);
        rep.case(&inp, label != "impossible");
        rep.bump(&format!("placement:{label}"));
        match &got {
            Err(m) => {
                rep.fail("panic-or-load", inp.clone(), m.clone());
                continue;
            }
            Ok(g) => {
                if in_quantifier {
                    if let Some(w) = want {
                        if g.is_some() != w {
                            rep.fail(
                                "decision",
                                inp.clone(),
                                format!("placement {label}: limit error reported = {}, property says {} (expected range {:?}, calculated by check(): {:?})", g.is_some(), w, range, g),
                            );
                        }
                    }
                    // calculated limits, where visible, must be the expected range (relative 1e-9)
                    if let (Some((cl, cu)), Some((el, eu))) = (g, range) {
                        let close = |a: f64, b: f64| a == b || (a - b).abs() <= 1e-9 * a.abs().max(b.abs());
                        if el.is_finite() && eu.is_finite() && !(close(*cl, el) && close(*cu, eu)) {
                            rep.fail("range", inp.clone(), format!("check() calculated {cl:e}..{cu:e}, expected {el:e}..{eu:e}"));
                        }
                    }
                }
            }
        }
        if !in_quantifier {
            continue;
        }
        // f64 overflow to infinity / NaN in an intermediate result is outside the rational model: oracle only
        if let Some((l, u)) = range {
            if !(l.is_finite() && u.is_finite()) {
                rep.bump("f64-overflow-cases-not-tied");
                continue;
            }
        }
        // tie: decision always; calculated limits only on the exact grid
        let g = got.unwrap();
        let answer = match (&g, case.exact) {
            (None, _) => "err=0".to_string(),
            (Some((cl, cu)), true) => format!("err=1;calc={},{}", dyadic(*cl), dyadic(*cu)),
            (Some(_), false) => "err=1".to_string(),
        };
        // the approx mode compares decisions only where the property states one (clear placements)
        // (at the boundary itself exact and rounded arithmetic may legitimately differ: not a clear placement)
        if case.exact || (want.is_some() && label != "exact") {
            rep.tie(
                format!(
                    "lim {} {} {} {} {} {}",
                    if case.exact { "exact" } else { "approx" },
                    CARRIERS[case.carrier],
                    dtname,
                    conv_request(&case.conv),
                    dyadic(lo),
                    dyadic(hi)
                ),
                answer,
            );
        }
    }
}

pub fn run(args: &Args) -> Report {
    let mut rep = Report::new(
        "C12",
        "one-carrier modules (5 carriers x 11 data types x conversion kinds x coefficient grid) x placements of the declared limits (impossible / exactly the expected range / clearly inside / clearly below / clearly above / both); exact grid: coefficients m*2^k chosen so that every f64 intermediate is exact, compared as exact rationals with the Lean model; approx stream: magnitudes 1e-6..1e6 of both signs, decisions compared; non-trivial = every placement other than the 'impossible' probe; distinct = distinct (carrier, type, conversion, limits)",
    );
    let mut rng = Rng::new(args.seed);
    if let Some(input) = &args.replay {
        // replay input: a request line as stored in the replay file
        if let Some((case, lo, hi)) = parse_case(input) {
            rep.sample(input.clone());
            rep.case(&"replay-marker", true);
            run_case(&mut rep, &case, &mut rng, Some((lo, hi)));
            if rep.evaluations < 2 {
                // the stored limits are not one of the standard placements: evaluate the whole family instead
                run_case(&mut rep, &case, &mut rng, None);
            }
        } else {
            rep.case(&input, true);
            rep.case(&"unparsable replay", true);
            rep.sample(input.clone());
        }
        return rep;
    }
    let small_dts = [0usize, 1, 2, 3, 4, 5, 8];
    let mant = [1.0f64, 3.0, 5.0];
    let mut cases: Vec<Case> = vec![];
    // --- exact grid
    for carrier in 0..5 {
        for &dt in &small_dts {
            for conv in [Conv::Absent, Conv::Dangling, Conv::Direct("IDENTICAL"), Conv::Direct("TAB_INTP"), Conv::Direct("TAB_NOINTP"), Conv::Direct("TAB_VERB"), Conv::Form, Conv::Linear(None), Conv::RatFunc(None)] {
                cases.push(Case { carrier, dt, conv, exact: true });
            }
            let nlin = if args.thorough { 60 } else { 12 };
            for _ in 0..nlin {
                let s = if rng.chance(1, 2) { 1.0 } else { -1.0 };
                let a = s * mant[rng.below(3)] * 2f64.powi(rng.range(-6, 6) as i32);
                let a = if rng.chance(1, 20) { 0.0 } else { a };
                let b = rng.range(-4096, 4096) as f64 / 64.0;
                cases.push(Case { carrier, dt, conv: Conv::Linear(Some((a, b))), exact: true });
            }
            for _ in 0..nlin {
                let sb = if rng.chance(1, 2) { 1.0 } else { -1.0 };
                let sf = if rng.chance(1, 2) { 1.0 } else { -1.0 };
                let b = sb * 2f64.powi(rng.range(-4, 4) as i32);
                let f = sf * mant[rng.below(3)] * 2f64.powi(rng.range(-4, 4) as i32);
                let c = rng.range(-1000, 1000) as f64;
                cases.push(Case { carrier, dt, conv: Conv::RatFunc(Some([0.0, b, c, 0.0, 0.0, f])), exact: true });
            }
            // general RAT_FUNC (not evaluated)
            for _ in 0..3 {
                let mut c = [1.0, 2.0, 3.0, 0.0, 0.0, 1.0];
                match rng.below(4) {
                    0 => c[0] = 1.0,
                    1 => { c[0] = 0.0; c[3] = 2.0 }
                    2 => { c[0] = 0.0; c[4] = -1.0 }
                    _ => { c[0] = 0.0; c[5] = 0.0 }
                }
                cases.push(Case { carrier, dt, conv: Conv::RatFunc(Some(c)), exact: true });
            }
        }
    }
    // --- approx stream: all 11 data types, magnitudes 1e-6 .. 1e6, both signs
    let napprox = if args.thorough { 80000 } else { 1500 };
    for _ in 0..napprox {
        let carrier = rng.below(5);
        let dt = rng.below(11);
        let mag = |rng: &mut Rng| {
            let s = if rng.chance(1, 2) { 1.0 } else { -1.0 };
            s * 10f64.powf(rng.range(-600, 600) as f64 / 100.0)
        };
        let conv = if rng.chance(1, 2) {
            Conv::Linear(Some((mag(&mut rng), if rng.chance(1, 4) { 0.0 } else { mag(&mut rng) })))
        } else {
            Conv::RatFunc(Some([0.0, mag(&mut rng), if rng.chance(1, 4) { 0.0 } else { mag(&mut rng) }, 0.0, 0.0, mag(&mut rng)]))
        };
        cases.push(Case { carrier, dt, conv, exact: false });
    }
    // b = 0: a constant, not evaluated - no limit error whatever is declared, for every carrier and data type
    for carrier in 0..5 {
        for dt in [0usize, 3, 7, 10] {
            cases.push(Case { carrier, dt, conv: Conv::RatFunc(Some([0.0, 0.0, 1.0, 0.0, 0.0, 1.0])), exact: true });
            cases.push(Case { carrier, dt, conv: Conv::RatFunc(Some([0.0, 0.0, -5.0, 0.0, 0.0, 2.0])), exact: false });
        }
    }
    for (i, case) in cases.iter().enumerate() {
        let kind = match &case.conv {
            Conv::Absent => "absent",
            Conv::Dangling => "dangling",
            Conv::Direct(_) => "direct",
            Conv::Form => "form",
            Conv::Linear(None) => "linear-nocoeffs",
            Conv::Linear(Some((a, _))) => if *a < 0.0 { "linear-neg" } else { "linear-nonneg" },
            Conv::RatFunc(None) => "ratfunc-nocoeffs",
            Conv::RatFunc(Some(c)) => if c[0] == 0.0 && c[3] == 0.0 && c[4] == 0.0 && c[5] != 0.0 { "ratfunc-linear" } else { "ratfunc-general" },
        };
        rep.bump(&format!("conv:{kind}"));
        rep.bump(&format!("carrier:{}", CARRIERS[case.carrier]));
        rep.bump(if case.exact { "grid:exact" } else { "grid:approx" });
        if i % 977 == 0 {
            rep.sample(format!("{} {} {:?}", CARRIERS[case.carrier], DTS[case.dt].0, case.conv));
        }
        run_case(&mut rep, case, &mut rng, None);
    }
    // whole modules: which data type and conversion each carrier is tested against (record layout of the deposit's name,
    // FNC_VALUES / AXIS_PTS_X..5 by position, first item of a duplicated name) - ordered report list with exact limits
    // against the structural model of checker.rs (Model/Checker.lean, Props/C12Struct.lean)
    crate::c11full::run_family(&mut rep, &mut rng, if args.thorough { 20000 } else { 400 });
    rep
}
