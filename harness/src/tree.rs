//! element-level correspondence: `load_from_string` + `write_to_string` vs the Lean model of the generic parser / writer
use crate::common::*;
use a2lfile::{A2lError, ParserError};

pub fn perr(e: &ParserError) -> (String, u32) {
    use ParserError::*;
    match e {
        UnexpectedTokenType { error_line, .. } => ("UnexpectedTokenType".into(), *error_line),
        MalformedNumber { error_line, .. } => ("MalformedNumber".into(), *error_line),
        InvalidEnumValue { error_line, .. } => ("InvalidEnumValue".into(), *error_line),
        InvalidMultiplicityTooMany { error_line, .. } => ("InvalidMultiplicityTooMany".into(), *error_line),
        InvalidMultiplicityNotPresent { error_line, .. } => ("InvalidMultiplicityNotPresent".into(), *error_line),
        IncorrectBlockError { error_line, .. } => ("IncorrectBlockError".into(), *error_line),
        IncorrectKeywordError { error_line, .. } => ("IncorrectKeywordError".into(), *error_line),
        IncorrectEndTag { error_line, .. } => ("IncorrectEndTag".into(), *error_line),
        UnknownSubBlock { error_line, .. } => ("UnknownSubBlock".into(), *error_line),
        UnexpectedEOF { error_line, .. } => ("UnexpectedEOF".into(), *error_line),
        StringTooLong { error_line, .. } => ("StringTooLong".into(), *error_line),
        BlockRefDeprecated { error_line, .. } => ("BlockRefDeprecated".into(), *error_line),
        BlockRefTooNew { error_line, .. } => ("BlockRefTooNew".into(), *error_line),
        EnumRefDeprecated { error_line, .. } => ("EnumRefDeprecated".into(), *error_line),
        EnumRefTooNew { error_line, .. } => ("EnumRefTooNew".into(), *error_line),
        InvalidBegin { error_line, .. } => ("InvalidBegin".into(), *error_line),
        InvalidIdentifier { error_line, .. } => ("InvalidIdentifier".into(), *error_line),
        A2mlError { error_line, .. } => ("A2mlError".into(), *error_line),
        AdditionalTokensError { error_line, .. } => ("AdditionalTokensError".into(), *error_line),
        MissingVersionInfo => ("MissingVersionInfo".into(), 0),
        InvalidVersion { .. } => ("InvalidVersion".into(), 0),
        other => {
            // variants this harness does not name (ParserError is non_exhaustive): variant name and error_line from
            // the Debug text
            let d = format!("{other:?}");
            let name: String = d.chars().take_while(|c| c.is_alphanumeric()).collect();
            let line = d.split("error_line: ").nth(1).map(|r| r.chars().take_while(|c| c.is_ascii_digit()).collect::<String>()).and_then(|n| n.parse().ok()).unwrap_or(0);
            (name, line)
        }
    }
}

pub fn log_text(log: &[A2lError]) -> String {
    log.iter()
        .map(|e| match e {
            A2lError::ParserError { parser_error } => {
                let (k, l) = perr(parser_error);
                format!("{k}@{l}")
            }
            other => format!("Other:{}", format!("{other:?}").split(|c: char| !c.is_alphanumeric()).next().unwrap_or("")),
        })
        .collect::<Vec<_>>()
        .join(",")
}

/// what `add_float` writes for the value that `get_double` reads from this Number token, or None = MalformedNumber
pub fn float_codec(text: &str) -> Option<String> {
    let v: f64 = if text.starts_with("0x") || text.starts_with("0X") {
        u64::from_str_radix(&text[2..], 16).ok()? as f64
    } else {
        // (a literal that is too large parses as infinity: rejected as malformed since fix 1ba05af)
        text.parse::<f64>().ok().filter(|v| v.is_finite())?
    };
    Some(if v == 0f64 {
        "0".to_string()
    } else if v < -1e+10 || (-0.0001 < v && v < 0.0001) || 1e+10 < v {
        format!("{v:e}")
    } else {
        format!("{v}")
    })
}

pub enum Loaded {
    Ok(a2lfile::A2lFile, Vec<A2lError>),
    Err(String),
    Panic(String),
}

pub fn load(text: &str, strict: bool) -> Loaded {
    match catch(|| a2lfile::load_from_string(text, None, strict)) {
        Err(p) => Loaded::Panic(p),
        Ok(Ok((f, log))) => Loaded::Ok(f, log),
        Ok(Err(e)) => Loaded::Err(match &e {
            A2lError::ParserError { parser_error } => {
                let (k, l) = perr(parser_error);
                format!("{k}@{l}")
            }
            A2lError::TokenizerError { .. } => "Tokenizer".to_string(),
            A2lError::EmptyFileError { .. } => "EmptyFile".to_string(),
            other => format!("Other:{other}"),
        }),
    }
}

/// (request line, implementation answer) for the element-level tie: the model lexes and parses the text itself
pub fn tie_case(text: &str, strict: bool) -> Option<(String, String)> {
    let dump = catch(|| a2lfile::verif_hooks::tokenize_dump(text));
    let toks = match &dump {
        Ok(Ok(t)) => t.clone(),
        _ => vec![],
    };
    if toks.iter().any(|t| t.0 == 3) {
        return None; // /include is outside this model (C16)
    }
    if toks.iter().any(|t| t.0 == 0 && matches!(&text[t.1..t.2], "A2ML" | "IF_DATA")) {
        // A2ML / IF_DATA: the `special` parsers of the model (Model/A2ml.lean, Model/IfData.lean) need the f32 table too
        return tie_case_special(text, strict);
    }
    let mut floats: Vec<String> = vec![];
    let mut seen = std::collections::HashSet::new();
    for (k, s, e, _) in &toks {
        if *k == 5 {
            let t = &text[*s..*e];
            if seen.insert(t.to_string()) {
                if let Some(p) = float_codec(t) {
                    floats.push(format!("{}={}", hex(t.as_bytes()), hex(p.as_bytes())));
                }
            }
        }
    }
    let request = format!("a2l {} {} L {}", u8::from(strict), hex(text.as_bytes()), if floats.is_empty() { "-".to_string() } else { floats.join(",") });
    let answer = match (&dump, load(text, strict)) {
        (Err(_), _) | (_, Loaded::Panic(_)) => "PANIC".to_string(),
        (Ok(Err((kind, line))), _) => format!("err Tokenizer:{kind}@{line}"),
        (_, Loaded::Err(e)) => format!("err {e}"),
        (_, Loaded::Ok(f, log)) => match catch(|| f.write_to_string()) {
            Ok(w) => format!("ok;log={};text={}", log_text(&log), hex(w.as_bytes())),
            Err(_) => "PANIC-write".to_string(),
        },
    };
    Some((request, answer))
}

/// like `tie_case`, for documents that contain A2ML / IF_DATA (`special` types of the parser model)
pub fn tie_case_special(text: &str, strict: bool) -> Option<(String, String)> {
    let dump = catch(|| a2lfile::verif_hooks::tokenize_dump(text));
    let request = format!("a2l {} {} L {}", u8::from(strict), hex(text.as_bytes()), float_table(text));
    let answer = match (&dump, load(text, strict)) {
        (Err(_), _) | (_, Loaded::Panic(_)) => "PANIC".to_string(),
        (Ok(Err((kind, line))), _) => format!("err Tokenizer:{kind}@{line}"),
        (_, Loaded::Err(e)) => format!("err {e}"),
        (_, Loaded::Ok(f, log)) => match catch(|| f.write_to_string()) {
            Ok(w) => format!("ok;log={};text={}", log_text(&log), hex(w.as_bytes())),
            Err(_) => "PANIC-write".to_string(),
        },
    };
    Some((request, answer))
}

/// the same with a built-in specification (`a2ml_spec` argument of `load_from_string`): the model gets its text as a
/// fifth argument and tries it first, as the code does
pub fn tie_case_special_builtin(text: &str, builtin: &str, strict: bool) -> Option<(String, String)> {
    let dump = catch(|| a2lfile::verif_hooks::tokenize_dump(text));
    let request = format!("a2l {} {} L {} {}", u8::from(strict), hex(text.as_bytes()), float_table(text), hex(builtin.as_bytes()));
    let loaded = match catch(|| a2lfile::load_from_string(text, Some(builtin.to_string()), strict)) {
        Ok(Ok((f, log))) => Loaded::Ok(f, log),
        Ok(Err(e)) => Loaded::Err(match &e {
            A2lError::ParserError { parser_error } => {
                let (k, l) = perr(parser_error);
                format!("{k}@{l}")
            }
            A2lError::TokenizerError { .. } => "Tokenizer".to_string(),
            A2lError::EmptyFileError { .. } => "EmptyFile".to_string(),
            other => format!("Other:{other}"),
        }),
        Err(p) => Loaded::Panic(p),
    };
    let answer = match (&dump, loaded) {
        (Err(_), _) | (_, Loaded::Panic(_)) => "PANIC".to_string(),
        (Ok(Err((kind, line))), _) => format!("err Tokenizer:{kind}@{line}"),
        (_, Loaded::Err(e)) => format!("err {e}"),
        (_, Loaded::Ok(f, log)) => match catch(|| f.write_to_string()) {
            Ok(w) => format!("ok;log={};text={}", log_text(&log), hex(w.as_bytes())),
            Err(_) => "PANIC-write".to_string(),
        },
    };
    Some((request, answer))
}

/// the float codec table of a document that may contain A2ML / IF_DATA: `<hex token>=<hex printed>` for f64, and under
/// the key `f32:<token>` what the value prints as after a round trip through f32 (A2ML `float` members)
pub fn float_table(text: &str) -> String {
    let dump = catch(|| a2lfile::verif_hooks::tokenize_dump(text));
    let toks = match &dump {
        Ok(Ok(t)) => t.clone(),
        _ => vec![],
    };
    let mut floats: Vec<String> = vec![];
    let mut seen = std::collections::HashSet::new();
    for (k, s, e, _) in &toks {
        if *k == 5 {
            let t = &text[*s..*e];
            if seen.insert(t.to_string()) {
                if let Some(p) = float_codec(t) {
                    floats.push(format!("{}={}", hex(t.as_bytes()), hex(p.as_bytes())));
                }
                // f32 variant for A2ML `float` members: key prefixed with `f32:`
                if let Some(v) = t.parse::<f32>().ok().filter(|v| v.is_finite()) {
                    let v = v as f64;
                    let p = if v == 0f64 { "0".to_string() } else if v < -1e+10 || (-0.0001 < v && v < 0.0001) || 1e+10 < v { format!("{v:e}") } else { format!("{v}") };
                    floats.push(format!("{}={}", hex(format!("f32:{t}").as_bytes()), hex(p.as_bytes())));
                }
            }
        }
    }
    if floats.is_empty() { "-".to_string() } else { floats.join(",") }
}
