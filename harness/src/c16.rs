//! C16: /include is transparent for loading and preserved by writing. Splits generated documents into a main file plus
//! include files at element boundaries (1..3 levels, sub-directories, quoted / unquoted names, / and \ separators),
//! in a temporary directory that is removed afterwards.
use crate::common::*;
use crate::docgen::*;
use crate::graph::*;
use a2lfile::A2lObject;
use std::path::{Path, PathBuf};

struct Split {
    /// (relative path, content) of every file; files[0] is the main file
    files: Vec<(String, String)>,
    flattened: String,
    nested: bool,
    subdir: bool,
}

fn elem_text(toks: &[GTok], rng: &mut Rng) -> String {
    render(toks, rng, Layout::Canonical, false)
}

/// main file with the MODULE children distributed over include files
fn make_split(g: &Grammar, rng: &mut Rng, levels: usize) -> Split {
    let mut gm = gen_module(g, rng, "", 1, 30, false);
    gm.resolve_refs(rng, 0);
    let children: Vec<String> = gm.children.iter().map(|c| elem_text(c, rng)).collect();
    let head = "ASAP2_VERSION 1 71\n/begin PROJECT p \"\"\n/begin MODULE m \"\"\n";
    let tail = "\n/end MODULE\n/end PROJECT\n";
    let mut files: Vec<(String, String)> = vec![("main.a2l".to_string(), String::new())];
    let mut main = String::from(head);
    let mut flat = String::from(head);
    let (mut nested, mut subdir) = (false, false);
    let mut i = 0;
    let mut ninc = 0;
    // an /include inside an IF_DATA block (the content is interpreted with the A2ML definition of the module)
    if rng.chance(1, 3) {
        let a2ml = "/begin A2ML\nblock \"IF_DATA\" taggedunion { \"XCP\" taggedstruct { (\"EV\" uint)*; block \"BLK\" taggedstruct { (\"E2\" uint)*; }; \"N\" uint; }; };\n/end A2ML\n";
        let inner = rng.chance(1, 2);
        let fname = if rng.chance(1, 2) { "ifd/events.a2l" } else { "events.a2l" };
        subdir |= fname.contains('/');
        let shown = if rng.chance(1, 3) { fname.replace('/', "\\") } else { fname.to_string() };
        let (inc_content, pre, post) = if inner {
            ("E2 7 E2 0x8\n", "/begin IF_DATA XCP EV 1 /begin BLK E2 6\n", "\nE2 9 /end BLK N 5\n/end IF_DATA\n")
        } else {
            ("EV 2 EV 0x3\n", "/begin IF_DATA XCP EV 1\n", "\nEV 4 N 5\n/end IF_DATA\n")
        };
        files.push((fname.to_string(), inc_content.to_string()));
        main.push_str(a2ml);
        main.push_str(pre);
        main.push_str(&format!("/include \"{shown}\""));
        main.push_str(post);
        flat.push_str(a2ml);
        flat.push_str(pre);
        flat.push_str(inc_content);
        flat.push_str(post);
    } else if rng.chance(1, 3) {
        // an A2ML block that the A2ML parser rejects (kept as text in non-strict mode): flattening must keep its text
        let a2ml = if rng.chance(1, 2) {
            "/begin A2ML\nstruct NoIfData { uint; };\n/end A2ML\n"
        } else {
            "/begin A2ML\nblock \"IF_DATA\" taggedunion {\n/end A2ML\n"
        };
        main.push_str(a2ml);
        flat.push_str(a2ml);
    }
    while i < children.len() {
        if rng.chance(1, 3) && i + 1 < children.len() {
            // a run of 1..4 children goes into an include file
            let n = 1 + rng.below(4).min(children.len() - i - 1);
            ninc += 1;
            let in_sub = rng.chance(1, 3);
            let dir = if in_sub { format!("sub{ninc}/") } else { String::new() };
            let fname = format!("{dir}inc{ninc}.a2l");
            let mut content = String::new();
            let mut flat_part = String::new();
            for (k, c) in children[i..i + n].iter().enumerate() {
                if levels >= 2 && k == 0 && n >= 2 && rng.chance(1, 2) {
                    // nested include: the first child of the run lives one level deeper, relative to this include file
                    let deep_sub = rng.chance(1, 2);
                    let ddir = if deep_sub { "deep/".to_string() } else { String::new() };
                    let dname = format!("{ddir}inner{ninc}.a2l");
                    files.push((format!("{dir}{dname}"), format!("{c}\n")));
                    content.push_str(&format!("/include \"{dname}\"\n"));
                    nested = true;
                    subdir |= deep_sub || in_sub;
                } else {
                    content.push_str(c);
                    content.push('\n');
                }
                flat_part.push_str(c);
                flat_part.push('\n');
            }
            subdir |= in_sub;
            // an include file may start with a byte order mark like any other file
            if rng.chance(1, 5) {
                content = format!("\u{feff}{content}");
            }
            files.push((fname.clone(), content));
            // directive syntax: quoted / unquoted, / or \ separators
            let shown = if rng.chance(1, 3) { fname.replace('/', "\\") } else { fname.clone() };
            if rng.chance(1, 2) {
                main.push_str(&format!("/include \"{shown}\"\n"));
            } else {
                main.push_str(&format!("/include {shown}\n"));
            }
            flat.push_str(&flat_part);
            i += n;
        } else {
            // the same file may be the target of several directives (a shared snippet)
            if rng.chance(1, 6) {
                if !files.iter().any(|f| f.0 == "shared/snippet.a2l") {
                    files.push(("shared/snippet.a2l".to_string(), "/* shared snippet */\n".to_string()));
                    subdir = true;
                }
                main.push_str("/include \"shared/snippet.a2l\"\n");
                flat.push_str("/* shared snippet */\n");
            }
            main.push_str(&children[i]);
            main.push('\n');
            flat.push_str(&children[i]);
            flat.push('\n');
            i += 1;
        }
    }
    main.push_str(tail);
    flat.push_str(tail);
    files[0].1 = main;
    Split { files, flattened: flat, nested, subdir }
}

fn write_files(dir: &Path, files: &[(String, String)]) {
    for (rel, content) in files {
        let p = dir.join(rel);
        if let Some(parent) = p.parent() {
            let _ = std::fs::create_dir_all(parent);
        }
        std::fs::write(&p, content).unwrap();
    }
}

fn describe(files: &[(String, String)]) -> String {
    files.iter().map(|(n, c)| format!("{n}={}", hex(c.as_bytes()))).collect::<Vec<_>>().join(" ")
}

pub fn run(args: &Args) -> Report {
    let mut rep = Report::new(
        "C16",
        "generated consistent modules split into a main file plus include files at element boundaries: runs of 1-4 MODULE children per include file, optional sub-directories, nested includes (relative to the including file), quoted / unquoted directive names, / and \\ separators; fault cases: missing, empty, self-including file. non-trivial = split with at least one include; distinct = distinct file sets",
    );
    let g = match Grammar::load() {
        Ok(g) => g,
        Err(e) => {
            rep.fail("infrastructure", String::new(), e);
            return rep;
        }
    };
    let mut rng = Rng::new(args.seed);
    let root: PathBuf = std::env::temp_dir().join(format!("a2lverif_c16_{}", std::process::id()));
    let _ = std::fs::remove_dir_all(&root);
    let _ = std::fs::create_dir_all(&args.out);
    let current = format!("{}/current.txt", args.out);
    let n = if args.thorough { 12000 } else { 500 };
    // witness of the known finding: a file that includes itself (aborts the process)
    if let Some(r) = &args.replay {
        if r.contains("gen:self-include") {
            let dir = root.join("self");
            let _ = std::fs::create_dir_all(&dir);
            std::fs::write(&current, "gen:self-include").ok();
            std::fs::write(dir.join("main.a2l"), "ASAP2_VERSION 1 71\n/include \"main.a2l\"\n").unwrap();
            let r = catch(|| a2lfile::load(dir.join("main.a2l"), None, false).is_ok());
            rep.case(&"self-include", true);
            rep.case(&"replay", true);
            if let Err(p) = r {
                rep.fail("panic", "gen:self-include".into(), p);
            }
            let _ = std::fs::remove_dir_all(&root);
            let _ = std::fs::remove_file(&current);
            return rep;
        }
    }
    // include names are resolved relative to the including file, not to the working directory: the process runs inside a
    // decoy directory that holds files with the same relative names and other content
    let old_cwd = std::env::current_dir().ok();
    let out_abs = std::fs::canonicalize(&args.out).unwrap_or_else(|_| PathBuf::from(&args.out));
    let current = out_abs.join("current.txt").to_string_lossy().into_owned();
    let decoy = root.join("decoy_cwd");
    let _ = std::fs::create_dir_all(&decoy);
    let _ = std::env::set_current_dir(&decoy);
    // fixed scenarios ------------------------------------------------------------------------------------------------
    {
        use a2lfile::A2lObjectName;
        let meas = |n: &str| format!("/begin MEASUREMENT {n} \"\" UBYTE NO_COMPU_METHOD 0 0 0 1 /end MEASUREMENT\n");
        let main_with = |incs: &[&str]| format!("ASAP2_VERSION 1 71\n/begin PROJECT p \"\"\n/begin MODULE m \"\"\n{}/end MODULE\n/end PROJECT\n", incs.iter().map(|f| format!("/include \"{f}\"\n")).collect::<String>());
        let names = |f: &a2lfile::A2lFile| -> Vec<String> {
            let mut v: Vec<String> = f.project.module.iter().flat_map(|m| m.measurement.iter().map(|x| x.get_name().to_string())).collect();
            v.sort();
            v
        };
        // (1) two flat include files whose elements interleave by name; sort() mixes them in the module's list, the writer
        //     still has to emit each directive once, and the written file reloads to the same set of elements
        for (k, (a, b)) in [(vec!["m_a", "m_c", "m_e"], vec!["m_b", "m_d", "m_f"]), (vec!["z1", "a1"], vec!["k1"]), (vec!["x"], vec!["w", "y"])].iter().enumerate() {
            let dir = root.join(format!("sortinc{k}"));
            write_files(&dir, &[
                ("main.a2l".to_string(), main_with(&["one.a2l", "two.a2l"])),
                ("one.a2l".to_string(), a.iter().map(|n| meas(n)).collect()),
                ("two.a2l".to_string(), b.iter().map(|n| meas(n)).collect()),
            ]);
            let input = format!("fixed:sort-with-includes:{k}");
            std::fs::write(&current, &input).ok();
            rep.case(&input, true);
            rep.bump("fixed:sort-with-includes");
            match catch(|| a2lfile::load(dir.join("main.a2l"), None, false)) {
                Ok(Ok((mut f, _))) => {
                    let want = names(&f);
                    if let Err(p) = catch(std::panic::AssertUnwindSafe(|| f.sort())) {
                        rep.fail("panic", input.clone(), p);
                        continue;
                    }
                    let out = dir.join("sorted_out.a2l");
                    if f.write(&out, None).is_err() {
                        rep.fail("write", input.clone(), "writing the sorted model failed".into());
                        continue;
                    }
                    let wtext = std::fs::read_to_string(&out).unwrap_or_default();
                    // tie with the Lean model of the writer's include logic: the items in the writer's order (after sort():
                    // by name) with the file they came from -> the directives / elements the writer emits
                    {
                        let mut items: Vec<(String, &str)> = a.iter().map(|n| (n.to_string(), "one.a2l")).chain(b.iter().map(|n| (n.to_string(), "two.a2l"))).collect();
                        items.sort();
                        let req = items.iter().map(|(n, f)| format!("{}:{}", hex(n.as_bytes()), hex(f.as_bytes()))).collect::<Vec<_>>().join(",");
                        let mut entries: Vec<String> = vec![];
                        let toks: Vec<&str> = wtext.split_whitespace().collect();
                        for w in 0..toks.len() {
                            if toks[w] == "/include" && w + 1 < toks.len() {
                                entries.push(format!("I{}", hex(toks[w + 1].trim_matches('"').as_bytes())));
                            } else if toks[w] == "/begin" && w + 2 < toks.len() && toks[w + 1] == "MEASUREMENT" {
                                entries.push(format!("E{}", hex(toks[w + 2].as_bytes())));
                            }
                        }
                        rep.tie(format!("incw {req}"), entries.join(","));
                    }
                    for inc in ["one.a2l", "two.a2l"] {
                        let cnt = wtext.matches(&format!("/include \"{inc}\"")).count();
                        if cnt != 1 {
                            rep.fail("include-directive", input.clone(), format!("after sort() the written file has {cnt} directives for {inc} (one expected)"));
                        }
                    }
                    match catch(|| a2lfile::load(&out, None, false)) {
                        Ok(Ok((f2, _))) => {
                            if names(&f2) != want {
                                rep.fail("reload", input.clone(), format!("after load, sort(), write the reloaded file holds the elements {:?}, the model held {want:?}", names(&f2)));
                            }
                        }
                        Ok(Err(e)) => rep.fail("reload", input.clone(), format!("the file written after sort() does not load: {e}")),
                        Err(p) => rep.fail("panic", input.clone(), p),
                    }
                }
                Ok(Err(e)) => rep.fail("generator", input.clone(), format!("fixed scenario does not load: {e}")),
                Err(p) => rep.fail("panic", input.clone(), p),
            }
        }
        // (1c) sort_new_items() next to included elements (C15 across an /include): the include file holds UNIT u_inc and,
        //      behind it, an element of an alphabetically earlier kind; a new UNIT goes directly behind the include
        //      directive (u_inc is the last placed UNIT), and the written file reloads to that order
        for (k, inc_body) in [
            "/begin UNIT u_inc \"\" \"u\" DERIVED /end UNIT\n/begin FUNCTION f_inc \"\" /end FUNCTION\n",
            "/begin FUNCTION f_inc \"\" /end FUNCTION\n/begin UNIT u_inc \"\" \"u\" DERIVED /end UNIT\n",
            "/begin UNIT u_inc \"\" \"u\" DERIVED /end UNIT\n/begin COMPU_METHOD c_inc \"\" IDENTICAL \"%6.2\" \"u\" /end COMPU_METHOD\n/begin UNIT u_inc2 \"\" \"u\" DERIVED /end UNIT\n",
        ].iter().enumerate() {
            let dir = root.join(format!("sni{k}"));
            write_files(&dir, &[
                ("main.a2l".to_string(), "ASAP2_VERSION 1 71\n/begin PROJECT p \"\"\n/begin MODULE m \"\"\n/begin UNIT u_main \"\" \"u\" DERIVED /end UNIT\n/include \"inc.a2l\"\n/begin GROUP g_main \"\" /end GROUP\n/end MODULE\n/end PROJECT\n".to_string()),
                ("inc.a2l".to_string(), inc_body.to_string()),
            ]);
            let input = format!("fixed:sort-new-items-with-include:{k}");
            std::fs::write(&current, &input).ok();
            rep.case(&input, true);
            rep.bump("fixed:sort-new-items-with-include");
            let order = |f: &a2lfile::A2lFile| -> Vec<String> { crate::a2lgen::written_children(&{ let mut g = f.clone(); a2lfile::A2lObject::merge_includes(&mut g); g.write_to_string() }).first().cloned().unwrap_or_default() };
            match catch(|| a2lfile::load(dir.join("main.a2l"), None, false)) {
                Ok(Ok((mut f, _))) => {
                    let before = order(&f);
                    f.project.module[0].unit.push(a2lfile::Unit::new("u_new".to_string(), String::new(), "u".to_string(), a2lfile::UnitType::Derived));
                    if let Err(p) = catch(std::panic::AssertUnwindSafe(|| f.sort_new_items())) {
                        rep.fail("panic", input.clone(), p);
                        continue;
                    }
                    // expected: the old order with u_new directly behind the last UNIT
                    let mut want = before.clone();
                    let last_unit = want.iter().rposition(|x| x.starts_with("UNIT ")).unwrap_or(0);
                    want.insert(last_unit + 1, "UNIT u_new".to_string());
                    let out = dir.join("out.a2l");
                    if f.write(&out, None).is_err() {
                        rep.fail("write", input.clone(), "writing failed".into());
                        continue;
                    }
                    match catch(|| a2lfile::load(&out, None, false)) {
                        Ok(Ok((f2, _))) => {
                            let got = order(&f2);
                            // elements of one include file stay together behind its directive: the new element may only be
                            // displaced to directly behind the included elements
                            let mut want2 = before.clone();
                            let last_inc = want2.iter().rposition(|x| x.ends_with("_inc") || x.ends_with("_inc2")).unwrap_or(0);
                            want2.insert(last_inc + 1, "UNIT u_new".to_string());
                            if got != want && got != want2 {
                                rep.fail("sort-new-items-include", input.clone(), format!("after push(UNIT u_new), sort_new_items(), write, load the order is {got:?}; expected {want:?} (or, the include file kept together, {want2:?})"));
                            }
                        }
                        Ok(Err(e)) => rep.fail("reload", input.clone(), format!("the file written after sort_new_items() does not load: {e}")),
                        Err(p) => rep.fail("panic", input.clone(), p),
                    }
                }
                Ok(Err(e)) => rep.fail("generator", input.clone(), format!("fixed scenario does not load: {e}")),
                Err(p) => rep.fail("panic", input.clone(), p),
            }
        }
        // (1b) the same at random: 1-4 include files, own elements of the main file in front of the directives, with and
        //      without sort(); written directives / elements against the Lean model of the writer's include logic
        for k in 0..(if args.thorough { 600 } else { 80 }) {
            let nfiles = 1 + rng.below(4);
            let mut pool: Vec<String> = (0..16).map(|i| format!("{}{i}", ["q", "b", "z", "a"][rng.below(4)])).collect();
            let mut take = |rng: &mut Rng, n: usize| -> Vec<String> { (0..n).filter_map(|_| if pool.is_empty() { None } else { Some(pool.remove(rng.below(pool.len()))) }).collect() };
            let nown = rng.below(4);
            let own = take(&mut rng, nown);
            let per_file: Vec<Vec<String>> = (0..nfiles).map(|_| { let n = 1 + rng.below(4); take(&mut rng, n) }).collect();
            let dir = root.join(format!("incw{k}"));
            let fname = |i: usize| format!("f{i}.a2l");
            let mut files = vec![(
                "main.a2l".to_string(),
                format!("ASAP2_VERSION 1 71\n/begin PROJECT p \"\"\n/begin MODULE m \"\"\n{}{}/end MODULE\n/end PROJECT\n", own.iter().map(|n| meas(n)).collect::<String>(), (0..nfiles).map(|i| format!("/include \"{}\"\n", fname(i))).collect::<String>()),
            )];
            for (i, names) in per_file.iter().enumerate() {
                files.push((fname(i), names.iter().map(|n| meas(n)).collect()));
            }
            write_files(&dir, &files);
            let input = format!("fixed:include-writer:{k}");
            std::fs::write(&current, &input).ok();
            rep.case(&(k, &files), true);
            rep.bump("include-writer");
            let sorted = rng.chance(1, 2);
            let Ok(Ok((mut f, _))) = catch(|| a2lfile::load(dir.join("main.a2l"), None, false)) else {
                rep.fail("generator", input.clone(), "include-writer scenario does not load".into());
                continue;
            };
            if sorted && catch(std::panic::AssertUnwindSafe(|| f.sort())).is_err() {
                rep.fail("panic", input.clone(), "sort() panicked".into());
                continue;
            }
            let out = dir.join("out.a2l");
            if f.write(&out, None).is_err() {
                continue;
            }
            let wtext = std::fs::read_to_string(&out).unwrap_or_default();
            let mut items: Vec<(String, Option<String>)> = own.iter().map(|n| (n.clone(), None)).collect();
            for (i, names) in per_file.iter().enumerate() {
                items.extend(names.iter().map(|n| (n.clone(), Some(fname(i)))));
            }
            if sorted {
                items.sort();
            }
            let req = items.iter().map(|(n, f)| format!("{}:{}", hex(n.as_bytes()), f.as_ref().map_or("!".to_string(), |f| hex(f.as_bytes())))).collect::<Vec<_>>().join(",");
            let mut entries: Vec<String> = vec![];
            let toks: Vec<&str> = wtext.split_whitespace().collect();
            for w in 0..toks.len() {
                if toks[w] == "/include" && w + 1 < toks.len() {
                    entries.push(format!("I{}", hex(toks[w + 1].trim_matches('"').as_bytes())));
                } else if toks[w] == "/begin" && w + 2 < toks.len() && toks[w + 1] == "MEASUREMENT" {
                    entries.push(format!("E{}", hex(toks[w + 2].as_bytes())));
                }
            }
            rep.tie(format!("incw {req}"), entries.join(","));
            // and the property itself: the written file reloads to the same set of elements
            let mut want = names(&f);
            want.sort();
            match catch(|| a2lfile::load(&out, None, false)) {
                Ok(Ok((f2, _))) => {
                    if names(&f2) != want {
                        rep.fail("reload", input.clone(), format!("the written file (sorted: {sorted}) reloads to the elements {:?}, the model held {want:?}", names(&f2)));
                    }
                }
                Ok(Err(e)) => rep.fail("reload", input.clone(), format!("the written file (sorted: {sorted}) does not load: {e}")),
                Err(p) => rep.fail("panic", input.clone(), p),
            }
        }
        // (2) witness of the known finding `include-comment-duplicated`: a comment that stands in an include file
        //     directly inside a block opened in the including file
        {
            let dir = root.join("inccomment");
            write_files(&dir, &[
                ("main.a2l".to_string(), main_with(&["inc.a2l"])),
                ("inc.a2l".to_string(), format!("{}/* comment inside the include file */\n{}", meas("x"), meas("y"))),
            ]);
            let input = "fixed:comment-in-include".to_string();
            std::fs::write(&current, &input).ok();
            rep.case(&input, true);
            rep.bump("finding:include-comment-duplicated");
            if let Ok(Ok((f, _))) = catch(|| a2lfile::load(dir.join("main.a2l"), None, false)) {
                let out = dir.join("out.a2l");
                let mut texts = vec![];
                let mut cur = f;
                for _ in 0..3 {
                    if cur.write(&out, None).is_err() {
                        break;
                    }
                    texts.push(std::fs::read_to_string(&out).unwrap_or_default());
                    match catch(|| a2lfile::load(&out, None, false)) {
                        Ok(Ok((f2, _))) => cur = f2,
                        _ => break,
                    }
                }
                if texts.len() == 3 {
                    let count = |t: &str| t.matches("comment inside the include file").count();
                    if count(&texts[0]) >= 1 && count(&texts[2]) > count(&texts[0]) {
                        rep.fail("include-comment-duplicated", input.clone(), format!("the comment of the include file is written into the main file too ({} time(s) after the first write, {} after the third): it accumulates on every load / write cycle", count(&texts[0]), count(&texts[2])));
                    } else if texts[0] != texts[2] {
                        rep.fail("fixpoint", input.clone(), "a file with a comment inside an include file drifts over load / write cycles".into());
                    }
                } else {
                    rep.fail("reload", input.clone(), "a file with a comment inside an include file does not survive three load / write cycles".into());
                }
            }
        }
    }
    for i in 0..n {
        let sp = make_split(&g, &mut rng, 1 + i % 3);
        let dir = root.join(format!("c{i}"));
        write_files(&dir, &sp.files);
        let _ = std::fs::remove_dir_all(&decoy);
        let _ = std::fs::create_dir_all(&decoy);
        let _ = std::env::set_current_dir(&decoy);
        let decoys: Vec<(String, String)> = sp.files.iter().skip(1).map(|(n, _)| (n.clone(), "/begin MEASUREMENT decoy_from_cwd \"\" UBYTE NO_COMPU_METHOD 0 0 0 1 /end MEASUREMENT\n".to_string())).collect();
        write_files(&decoy, &decoys);
        let input = describe(&sp.files);
        rep.case(&input, sp.files.len() > 1);
        rep.bump(&format!("files:{}", sp.files.len().min(5)));
        if sp.nested {
            rep.bump("nested");
        }
        if sp.subdir {
            rep.bump("subdir");
        }
        std::fs::write(&current, &input).ok();
        let main_path = dir.join("main.a2l");
        let flat = match catch(|| a2lfile::load_from_string(&sp.flattened, None, false)) {
            Ok(Ok((f, _))) => f,
            _ => {
                rep.fail("generator", input, "flattened text does not load".into());
                continue;
            }
        };
        // (a) transparent loading
        let loaded = match catch(|| a2lfile::load(&main_path, None, false)) {
            Err(p) => {
                rep.fail("panic", input, p);
                continue;
            }
            Ok(Err(e)) => {
                rep.fail("load-failed", input, format!("file with includes does not load: {e}"));
                continue;
            }
            Ok(Ok((f, _))) => f,
        };
        if loaded != flat {
            rep.fail("not-transparent", input.clone(), "model loaded through /include differs from the model of the flattened text".into());
        }
        // tie: token stream with include resolution (kind, text) vs the Lean splice model
        if let Ok(toks) = catch(|| a2lfile::verif_hooks::tokenize_path_dump(&main_path)) {
            let req = format!("inc main.a2l {}", sp.files.iter().map(|(n, c)| format!("{}={}", hex(n.as_bytes()), hex(c.as_bytes()))).collect::<Vec<_>>().join(","));
            let ans = match toks {
                Ok(t) => format!("ok {}", t.iter().map(|(k, s, f, _)| format!("{k}:{f}:{}", hex(s.as_bytes()))).collect::<Vec<_>>().join(" ")),
                Err(e) => format!("err {}", e.split(':').last().unwrap_or("").trim().split(' ').take(3).collect::<Vec<_>>().join("_")),
            };
            rep.tie(req, ans);
        }
        // (b) writing preserves the include directives; the written file reloads from the same directory
        let out_path = dir.join("written.a2l");
        match catch(|| loaded.write(&out_path, None)) {
            Err(p) => rep.fail("panic", input.clone(), p),
            Ok(Err(e)) => rep.fail("write-failed", input.clone(), e.to_string()),
            Ok(Ok(())) => {
                let wtext = std::fs::read_to_string(&out_path).unwrap_or_default();
                let ninc_main = sp.files[0].1.matches("/include").count();
                if wtext.matches("/include").count() < ninc_main.min(1) {
                    rep.fail("include-lost", input.clone(), "the written file contains no /include directive".into());
                }
                match catch(|| a2lfile::load(&out_path, None, false)) {
                    Err(p) => rep.fail("panic", input.clone(), p),
                    Ok(Err(e)) => {
                        let kind = if sp.nested { "nested-include-rewrite" } else { "written-not-loadable" };
                        rep.fail(kind, input.clone(), format!("the written file does not load from the same directory: {e}"));
                    }
                    Ok(Ok((f2, _))) => {
                        if f2 != loaded {
                            rep.fail(if sp.nested { "nested-include-rewrite" } else { "written-differs" }, input.clone(), "model of the written file differs".into());
                        }
                    }
                }
            }
        }
        // (c) merge_includes makes the output self-contained and equal
        let mut merged = loaded.clone();
        merged.merge_includes();
        let mtext = merged.write_to_string();
        if mtext.contains("/include") {
            rep.fail("merge-includes", input.clone(), "output after merge_includes() still contains /include".into());
        }
        match catch(|| a2lfile::load_from_string(&mtext, None, false)) {
            Ok(Ok((f3, _))) => {
                if f3 != flat {
                    rep.fail("merge-includes", input.clone(), "self-contained output differs from the flattened model".into());
                }
            }
            _ => rep.fail("merge-includes", input.clone(), "self-contained output does not load".into()),
        }
        // (d) faults: remove one include file -> error naming the directive; empty include file -> fine
        if sp.files.len() > 1 && i % 2 == 0 {
            let victim = &sp.files[1 + rng.below(sp.files.len() - 1)];
            let vp = dir.join(&victim.0);
            let saved = std::fs::read(&vp).unwrap_or_default();
            let _ = std::fs::remove_file(&vp);
            // (a name that is not found next to the including file is tried as written, i.e. relative to the working
            //  directory: for "missing" the decoy of that name has to go as well)
            let _ = std::fs::remove_file(decoy.join(&victim.0));
            if let Some(inner) = sp.files.iter().find(|f| f.0 != victim.0 && victim.0.ends_with(f.0.rsplit('/').next().unwrap_or(""))) {
                let _ = inner;
            }
            match catch(|| a2lfile::load(&main_path, None, false)) {
                Err(p) => rep.fail("panic", input.clone(), format!("missing include file: {p}")),
                Ok(Ok(_)) => rep.fail("missing-include-accepted", input.clone(), format!("include file {} is missing but loading succeeds", victim.0)),
                Ok(Err(e)) => {
                    let base = victim.0.rsplit('/').next().unwrap();
                    if !e.to_string().contains(base) {
                        rep.fail("missing-include-unnamed", input.clone(), format!("error does not name the missing include {}: {e}", victim.0));
                    }
                }
            }
            std::fs::write(&vp, b"").unwrap();
            if let Err(p) = catch(|| a2lfile::load(&main_path, None, false).is_ok()) {
                rep.fail("panic", input.clone(), format!("empty include file: {p}"));
            }
            std::fs::write(&vp, saved).unwrap();
        }
        if i % 37 == 0 {
            rep.sample(format!("{} files: {}", sp.files.len(), sp.files.iter().map(|f| f.0.clone()).collect::<Vec<_>>().join(", ")));
        }
        let _ = std::fs::remove_dir_all(&dir);
    }
    // fault cases: a file that includes itself, and a cycle through a second file: an error that names the directive
    // (IncludeFileError), never an abort; the tie compares the outcome with the Lean model's depth-limited recursion
    for (k, files) in [
        vec![("main.a2l".to_string(), "ASAP2_VERSION 1 71\n/include \"main.a2l\"\n".to_string())],
        vec![("main.a2l".to_string(), "ASAP2_VERSION 1 71\n/begin PROJECT p \"\"\n/include sub/b.a2l\n/end PROJECT\n".to_string()), ("sub/b.a2l".to_string(), "/begin MODULE m \"\"\n/include \"../main.a2l\"\n/end MODULE\n".to_string())],
        vec![("main.a2l".to_string(), "ASAP2_VERSION 1 71\n/begin PROJECT p \"\"\n/include b.a2l\n/end PROJECT\n".to_string()), ("b.a2l".to_string(), "/begin MODULE m \"\"\n/include b.a2l\n/end MODULE\n".to_string())],
    ]
    .into_iter()
    .enumerate()
    {
        let dir = root.join(format!("cycle{k}"));
        write_files(&dir, &files);
        let input = describe(&files);
        rep.case(&input, true);
        rep.bump("include-cycle");
        std::fs::write(&current, &input).ok();
        let main_path = dir.join("main.a2l");
        match catch(|| a2lfile::load(&main_path, None, false)) {
            Err(p) => rep.fail("panic", input.clone(), format!("include cycle: {p}")),
            Ok(Ok(_)) => rep.fail("cycle-accepted", input.clone(), "a file that includes itself loads without an error".into()),
            Ok(Err(e)) => {
                if !e.to_string().contains("include") {
                    rep.fail("cycle-error", input.clone(), format!("the error does not name the include directive: {e}"));
                }
            }
        }
        if k != 1 {
            // (the model's path arithmetic is textual: no `..`)
            if let Ok(toks) = catch(|| a2lfile::verif_hooks::tokenize_path_dump(&main_path)) {
                let req = format!("inc main.a2l {}", files.iter().map(|(n, c)| format!("{}={}", hex(n.as_bytes()), hex(c.as_bytes()))).collect::<Vec<_>>().join(","));
                let ans = match toks {
                    Ok(t) => format!("ok {}", t.iter().map(|(k, s, f, _)| format!("{k}:{f}:{}", hex(s.as_bytes()))).collect::<Vec<_>>().join(" ")),
                    Err(e) => format!("err {}", e.split(':').last().unwrap_or("").trim().split(' ').take(3).collect::<Vec<_>>().join("_")),
                };
                rep.tie(req, ans);
            }
        }
    }
    // the same fault inside A2ML (its tokenizer resolves /include on its own): a definition file that includes itself,
    // a cycle through a second file, and a proper chain of three files as the positive case
    let head = "ASAP2_VERSION 1 71\n/begin PROJECT p \"\"\n/begin MODULE m \"\"\n/begin A2ML\n/include x.aml\n/end A2ML\n/begin IF_DATA 5 /end IF_DATA\n/end MODULE\n/end PROJECT\n";
    for (k, (files, cyclic)) in [
        (vec![("main.a2l".to_string(), head.to_string()), ("x.aml".to_string(), "/include x.aml\n".to_string())], true),
        (vec![("main.a2l".to_string(), head.to_string()), ("x.aml".to_string(), "/include \"y.aml\"\n".to_string()), ("y.aml".to_string(), "struct s { int; };\n/include x.aml\n".to_string())], true),
        (vec![("main.a2l".to_string(), head.to_string()), ("x.aml".to_string(), "struct s { int; };\n/include y.aml\n".to_string()), ("y.aml".to_string(), "/include z.aml\n".to_string()), ("z.aml".to_string(), "block \"IF_DATA\" struct s;\n".to_string())], false),
    ]
    .into_iter()
    .enumerate()
    {
        let dir = root.join(format!("amlcycle{k}"));
        write_files(&dir, &files);
        let input = describe(&files);
        rep.case(&input, true);
        rep.bump("a2ml-include-cycle");
        std::fs::write(&current, &input).ok();
        let main_path = dir.join("main.a2l");
        for strict in [false, true] {
            match catch(|| a2lfile::load(&main_path, None, strict)) {
                Err(p) => rep.fail("panic", input.clone(), format!("A2ML include chain, strict={strict}: {p}")),
                Ok(Ok((a, log))) => {
                    let valid = a.project.module[0].if_data.first().map(|i| i.ifdata_valid).unwrap_or(false);
                    if cyclic && (strict || log.is_empty() || valid) {
                        rep.fail("a2ml-cycle-accepted", input.clone(), format!("an A2ML file that includes itself is accepted (strict={strict}, {} log entries, IF_DATA valid={valid})", log.len()));
                    }
                    if !cyclic && (!log.is_empty() || !valid) {
                        rep.fail("a2ml-include-chain", input.clone(), format!("a chain of three A2ML include files is not resolved (strict={strict}, {} log entries, IF_DATA valid={valid})", log.len()));
                    }
                }
                Ok(Err(e)) => {
                    if !(cyclic && strict) {
                        rep.fail("a2ml-include-chain", input.clone(), format!("load fails (strict={strict}): {e}"));
                    }
                }
            }
        }
    }
    if let Some(c) = old_cwd {
        let _ = std::env::set_current_dir(c);
    }
    let _ = std::fs::remove_dir_all(&root);
    let _ = std::fs::remove_file(&current);
    rep
}
