//! C04: grammar conformance, exhaustively over the regenerated table: every element kind x {base form, each optional
//! sub-element, each declared version} must load in strict mode without diagnostics (or with exactly the version
//! diagnostics the grammar prescribes), and every single deviation must produce its diagnostic class.
use crate::common::*;
use crate::docgen::*;
use crate::tree::*;
use std::collections::{HashMap, VecDeque};

fn t(text: &str, role: Role, depth: usize) -> GTok {
    GTok { text: text.to_string(), role, depth, elem: String::new() }
}

struct Builder<'a> {
    g: &'a Grammar,
    version: u8,
    n: usize,
}

impl<'a> Builder<'a> {
    fn enum_value(&self, ty: &str) -> String {
        if let Some(TyDef::Enum(items)) = self.g.types.get(ty) {
            for (tag, lo, hi) in items {
                if *lo <= self.version && (*hi == 0 || *hi >= self.version) {
                    return tag.clone();
                }
            }
            return items[0].0.clone();
        }
        "X".into()
    }
    fn item(&mut self, it: &Item, depth: usize, out: &mut Vec<GTok>) {
        match it {
            Item::Ident => {
                self.n += 1;
                out.push(t(&format!("id{}", self.n), Role::Param, depth))
            }
            Item::Str | Item::StrMax(_) => out.push(t("\"s\"", Role::Param, depth)),
            Item::Double => out.push(t("1.5", Role::Param, depth)),
            Item::Int(_) => out.push(t("1", Role::Param, depth)),
            Item::Enum(e) => out.push(t(&self.enum_value(e), Role::Param, depth)),
            Item::Struct(s) => {
                if let Some(TyDef::Block { items, .. }) = self.g.types.get(s).cloned() {
                    for i in &items {
                        self.item(i, depth, out);
                    }
                }
            }
            Item::Arr(of, n) => {
                for _ in 0..*n {
                    self.item(of, depth, out);
                }
            }
            Item::Seq(of, _) => {
                // one element, so that sequences are exercised too
                self.item(of, depth, out);
            }
        }
    }
    /// minimal element: parameters, required children, plus `extra` children (tag, ty, block) and an optional hook
    fn element(&mut self, tag: &str, ty: &str, block: bool, depth: usize, extra: &[(String, String, bool)], out: &mut Vec<GTok>) {
        if block {
            out.push(t("/begin", Role::Begin, depth));
        }
        out.push(GTok { text: tag.to_string(), role: Role::Tag, depth, elem: ty.to_string() });
        if let Some(TyDef::Block { items, arms, .. }) = self.g.types.get(ty).cloned() {
            for it in &items {
                self.item(it, depth, out);
            }
            for arm in &arms {
                let wanted_extra = extra.iter().any(|(tg, _, _)| *tg == arm.tag);
                if arm.required && !wanted_extra && !matches!(self.g.types.get(&arm.ty), Some(TyDef::Special) | None) {
                    self.element(&arm.tag, &arm.ty, arm.block, depth + 1, &[], out);
                }
            }
            for (tg, ety, eb) in extra {
                self.element(tg, ety, *eb, depth + 1, &[], out);
            }
        }
        if block {
            out.push(t("/end", Role::End, depth));
            out.push(t(tag, Role::Tag, depth));
        }
    }
}

/// path of (tag, type, is_block) from PROJECT down to each type
fn paths(g: &Grammar) -> HashMap<String, Vec<Arm>> {
    let mut res: HashMap<String, Vec<Arm>> = HashMap::new();
    let mut q = VecDeque::new();
    res.insert("Project".into(), vec![]);
    q.push_back("Project".to_string());
    while let Some(ty) = q.pop_front() {
        if let Some(TyDef::Block { arms, .. }) = g.types.get(&ty) {
            for arm in arms {
                if matches!(g.types.get(&arm.ty), Some(TyDef::Special) | None) {
                    continue;
                }
                if !res.contains_key(&arm.ty) {
                    let mut p = res[&ty].clone();
                    p.push(arm.clone());
                    res.insert(arm.ty.clone(), p);
                    q.push_back(arm.ty.clone());
                }
            }
        }
    }
    res
}

/// tokens of a file that nests along `path`, with the leaf body produced by `leaf`
fn doc_for_path(b: &mut Builder, path: &[Arm], leaf_extra: &[(String, String, bool)], version_text: &str) -> (Vec<GTok>, usize) {
    let mut out = vec![GTok { text: "ASAP2_VERSION".into(), role: Role::Tag, depth: 0, elem: "Asap2Version".into() }];
    for p in version_text.split(' ') {
        out.push(t(p, Role::Param, 0));
    }
    // nested construction: PROJECT { ... path[0] { path[1] { ... leaf } } }
    fn nest(b: &mut Builder, tag: &str, ty: &str, block: bool, depth: usize, rest: &[Arm], leaf_extra: &[(String, String, bool)], out: &mut Vec<GTok>, leaf_start: &mut usize) {
        if rest.is_empty() {
            *leaf_start = out.len();
            b.element(tag, ty, block, depth, leaf_extra, out);
            return;
        }
        if block {
            out.push(t("/begin", Role::Begin, depth));
        }
        out.push(GTok { text: tag.to_string(), role: Role::Tag, depth, elem: ty.to_string() });
        if let Some(TyDef::Block { items, arms, .. }) = b.g.types.get(ty).cloned() {
            for it in &items {
                b.item(it, depth, out);
            }
            for arm in &arms {
                if arm.required && arm.tag != rest[0].tag && !matches!(b.g.types.get(&arm.ty), Some(TyDef::Special) | None) {
                    b.element(&arm.tag, &arm.ty, arm.block, depth + 1, &[], out);
                }
            }
        }
        nest(b, &rest[0].tag, &rest[0].ty, rest[0].block, depth + 1, &rest[1..], leaf_extra, out, leaf_start);
        if block {
            out.push(t("/end", Role::End, depth));
            out.push(t(tag, Role::Tag, depth));
        }
    }
    let mut leaf_start = 0;
    nest(b, "PROJECT", "Project", true, 0, path, leaf_extra, &mut out, &mut leaf_start);
    (out, leaf_start)
}

fn classes(log: &str) -> Vec<String> {
    let mut v: Vec<String> = log.split(',').filter(|x| !x.is_empty()).map(|x| x.split('@').next().unwrap().to_string()).collect();
    v.sort();
    v.dedup();
    v
}

pub fn run(args: &Args) -> Report {
    let mut rep = Report::new(
        "C04",
        "exhaustive over the regenerated grammar table: every block/keyword type reachable from PROJECT x {base form with every parameter (sequences with one element), each optional sub-element, each of the six declared versions with the version diagnostics the table prescribes} and x single deviations {each parameter deleted, duplicated single child, missing required child, /begin../end around a keyword, block without /begin, unknown enum value, each version-gated enum value under each version}; strict and non-strict. non-trivial = every case; distinct = distinct texts",
    );
    let g = match Grammar::load_reference() {
        Ok(g) => g,
        Err(e) => {
            rep.fail("infrastructure", String::new(), e);
            return rep;
        }
    };
    let mut rng = Rng::new(args.seed);
    if let Some(input) = &args.replay {
        let text = String::from_utf8_lossy(&unhex(input.split_whitespace().next().unwrap_or("-"))).into_owned();
        rep.case(&text, true);
        rep.case(&"replay", true);
        for strict in [true, false] {
            if let Some((req, ans)) = tie_case(&text, strict) {
                rep.tie(req, ans);
            }
        }
        return rep;
    }
    let pths = paths(&g);
    let mut types: Vec<&String> = pths.keys().collect();
    types.sort();
    let mut ncase = 0usize;
    // expectation: (text, what, expected clean strict load?, required class in non-strict log or as strict error)
    let mut check = |rep: &mut Report, toks: &[GTok], what: String, expect_clean: bool, expect_class: Option<&str>, warn_only: bool| {
        ncase += 1;
        let text = render(toks, &mut Rng(ncase as u64), Layout::Canonical, false);
        rep.case(&text, true);
        rep.bump(what.split(':').next().unwrap());
        if ncase % 997 == 0 {
            rep.sample(format!("{what}: {}", text.replace('\n', " ").chars().take(200).collect::<String>()));
        }
        let input = hex(text.as_bytes());
        let s = load(&text, true);
        let n = load(&text, false);
        if let (Loaded::Panic(p), _) | (_, Loaded::Panic(p)) = (&s, &n) {
            rep.fail("panic", input.clone(), format!("{what}: {p}"));
            return;
        }
        if expect_clean {
            match &s {
                Loaded::Ok(f, log) => {
                    if !log.is_empty() {
                        rep.fail("unexpected-diagnostic", input.clone(), format!("{what}: strict load reports [{}]", log_text(log)));
                    }
                    // every value readable: the written text reloads to the same model
                    match load(&f.write_to_string(), true) {
                        Loaded::Ok(f2, _) if f2 == *f => {}
                        _ => rep.fail("values", input.clone(), format!("{what}: written text does not reload to the same model")),
                    }
                }
                Loaded::Err(e) => rep.fail("rejected", input.clone(), format!("{what}: strict load rejects a conforming document: {e}")),
                _ => {}
            }
        }
        if let Some(cls) = expect_class {
            // non-strict: the class must be in the log, or the load fails with it; strict: error of that class (or warn_only: accepted with the warning)
            let n_ok = match &n {
                Loaded::Ok(_, log) => classes(&log_text(log)).iter().any(|c| c == cls),
                Loaded::Err(e) => e.starts_with(cls),
                _ => false,
            };
            if !n_ok {
                let got = match &n { Loaded::Ok(_, log) => format!("ok [{}]", log_text(log)), Loaded::Err(e) => format!("err {e}"), _ => String::new() };
                rep.fail("missing-diagnostic", input.clone(), format!("{what}: expected diagnostic class {cls} in non-strict mode, got {got}"));
            }
            let s_ok = match &s {
                Loaded::Ok(_, log) => warn_only && classes(&log_text(log)).iter().any(|c| c == cls),
                Loaded::Err(e) => !warn_only && e.starts_with(cls),
                _ => false,
            };
            if !s_ok {
                let got = match &s { Loaded::Ok(_, log) => format!("ok [{}]", log_text(log)), Loaded::Err(e) => format!("err {e}"), _ => String::new() };
                rep.fail("missing-diagnostic", input.clone(), format!("{what}: expected {} {cls} in strict mode, got {got}", if warn_only { "warning" } else { "error" }));
            }
        } else if !expect_clean {
            // a deviation without a fixed class: must not load cleanly in strict mode
            if let Loaded::Ok(_, log) = &s {
                if log.is_empty() {
                    rep.fail("deviation-accepted", input.clone(), format!("{what}: strict load accepts the deviation without any diagnostic"));
                }
            }
        }
        if ncase % 3 == 0 {
            for strict in [true, false] {
                if let Some((req, ans)) = tie_case(&text, strict) {
                    rep.tie(req, ans);
                }
            }
        }
    };
    for ty in types {
        let path = pths[ty].clone();
        let Some(TyDef::Block { items, arms, .. }) = g.types.get(ty).cloned() else { continue };
        // gates along the path (for version expectations)
        let max_vlo = path.iter().map(|a| a.vlo).max().unwrap_or(0);
        // --- base form and each optional sub-element, at version 1.71 (deprecated ancestors make it non-clean: then only classes are checked)
        let deprecated_path = path.iter().any(|a| a.vhi != 0 && a.vhi < 6);
        let mut b = Builder { g: &g, version: 6, n: 0 };
        let (base, leaf_start) = doc_for_path(&mut b, &path, &[], "1 71");
        check(&mut rep, &base, format!("base:{ty}"), !deprecated_path, if deprecated_path { Some("BlockRefDeprecated") } else { None }, true);
        for arm in &arms {
            if matches!(g.types.get(&arm.ty), Some(TyDef::Special) | None) {
                continue;
            }
            let mut b = Builder { g: &g, version: 6, n: 0 };
            let (toks, _) = doc_for_path(&mut b, &path, &[(arm.tag.clone(), arm.ty.clone(), arm.block)], "1 71");
            let dep = deprecated_path || (arm.vhi != 0 && arm.vhi < 6);
            check(&mut rep, &toks, format!("optional:{ty}.{}", arm.tag), !dep, if dep { Some("BlockRefDeprecated") } else { None }, true);
            // a keyword written directly behind an open identifier list is a list member by definition (C07's exclusion)
            let open_list = |ty: &str| -> bool {
                matches!(g.types.get(ty), Some(TyDef::Block { items, .. }) if matches!(items.last(), Some(Item::Seq(of, _)) if matches!(**of, Item::Ident | Item::Str)))
            };
            // deviation: duplicated single child
            if !arm.repeat && !dep && !(!arm.block && open_list(&arm.ty)) {
                let mut b = Builder { g: &g, version: 6, n: 0 };
                let (toks2, _) = doc_for_path(&mut b, &path, &[(arm.tag.clone(), arm.ty.clone(), arm.block), (arm.tag.clone(), arm.ty.clone(), arm.block)], "1 71");
                check(&mut rep, &toks2, format!("dev-duplicate:{ty}.{}", arm.tag), false, Some("InvalidMultiplicityTooMany"), false);
            }
            // deviation: wrong block form of the child
            if !dep && !(arm.block && open_list(ty)) {
                let mut b = Builder { g: &g, version: 6, n: 0 };
                let (toks2, _) = doc_for_path(&mut b, &path, &[(arm.tag.clone(), arm.ty.clone(), !arm.block)], "1 71");
                check(&mut rep, &toks2, format!("dev-blockform:{ty}.{}", arm.tag), false, Some(if arm.block { "IncorrectBlockError" } else { "IncorrectKeywordError" }), false);
            }
            // versions: the child under each declared version
            if arm.vlo != 0 || arm.vhi != 0 {
                for (v, vt) in VERSIONS {
                    if v < max_vlo {
                        continue;
                    }
                    let mut b = Builder { g: &g, version: v, n: 0 };
                    let (toks, _) = doc_for_path(&mut b, &path, &[(arm.tag.clone(), arm.ty.clone(), arm.block)], vt);
                    if arm.vlo != 0 && v < arm.vlo {
                        check(&mut rep, &toks, format!("version-too-new:{ty}.{}@{vt}", arm.tag), false, Some("BlockRefTooNew"), false);
                    } else if arm.vhi != 0 && v > arm.vhi {
                        check(&mut rep, &toks, format!("version-deprecated:{ty}.{}@{vt}", arm.tag), false, Some("BlockRefDeprecated"), true);
                    }
                }
            }
        }
        if deprecated_path {
            continue;
        }
        // --- deviations on the leaf's own parameters: delete each parameter token
        // parameter tokens of the leaf; those produced by a sequence are optional (an empty list is conforming)
        let mut from_seq: Vec<bool> = vec![];
        {
            let mut b2 = Builder { g: &g, version: 6, n: 0 };
            for it in &items {
                let mut tmp = vec![];
                b2.item(it, 0, &mut tmp);
                from_seq.extend(std::iter::repeat(matches!(it, Item::Seq(..))).take(tmp.len()));
            }
        }
        let nparams = from_seq.len();
        let tag_idx = if base[leaf_start].role == Role::Begin { leaf_start + 1 } else { leaf_start };
        for k in 0..nparams {
            // (a parameter directly in front of a list could be replaced by the first list member: not a deviation)
            if from_seq[k] || (k + 1 < nparams && from_seq[k + 1]) {
                continue;
            }
            let mut toks = base.clone();
            toks.remove(tag_idx + 1 + k);
            check(&mut rep, &toks, format!("dev-missing-param:{ty}#{k}"), false, None, false);
        }
        // --- a token of the wrong type in place of each parameter: UnexpectedTokenType (an identifier in place of a string
        //     is the one case that is tolerated with a logged diagnostic in non-strict mode; it is an error in strict mode)
        for k in 0..nparams {
            if from_seq[k] {
                continue;
            }
            let tx = base[tag_idx + 1 + k].text.clone();
            let is_str = tx.starts_with('"');
            let is_num = tx.parse::<f64>().is_ok() || tx.starts_with("0x");
            let wrong: [&str; 2] = if is_str { ["wrongtype", "5"] } else if is_num { ["wrongtype", "\"s\""] } else { ["\"s\"", "5"] };
            for w in wrong {
                let mut toks = base.clone();
                toks[tag_idx + 1 + k].text = w.to_string();
                check(&mut rep, &toks, format!("dev-wrong-type:{ty}#{k}"), false, Some("UnexpectedTokenType"), false);
            }
        }
        // --- unknown enum value in each enum parameter
        for k in 0..nparams {
            let tx = &base[tag_idx + 1 + k].text;
            let is_enum = g.types.values().any(|d| matches!(d, TyDef::Enum(items) if items.iter().any(|(tg, _, _)| tg == tx)))
                && tx.chars().all(|c| c.is_ascii_uppercase() || c == '_' || c.is_ascii_digit());
            if is_enum {
                let mut toks = base.clone();
                toks[tag_idx + 1 + k].text = "NOT_AN_ENUM_VALUE".into();
                check(&mut rep, &toks, format!("dev-unknown-enum:{ty}#{k}"), false, Some("InvalidEnumValue"), false);
            }
        }
        // --- required children missing
        for arm in arms.iter().filter(|a| a.required) {
            let mut toks = base.clone();
            // drop the first occurrence of the required child below the leaf
            if let Some(i) = (leaf_start..toks.len()).find(|&i| toks[i].role == Role::Tag && toks[i].text == arm.tag && toks[i].elem == arm.ty) {
                let start = if i > 0 && toks[i - 1].role == Role::Begin { i - 1 } else { i };
                // end of the child: matching /end tag, or next token at the same depth for keywords
                let depth = toks[i].depth;
                let mut j = i + 1;
                if arm.block {
                    while !(toks[j].role == Role::End && toks[j].depth == depth) {
                        j += 1;
                    }
                    j += 2;
                } else {
                    while j < toks.len() && toks[j].depth >= depth && toks[j].role == Role::Param {
                        j += 1;
                    }
                }
                toks.drain(start..j);
                check(&mut rep, &toks, format!("dev-missing-required:{ty}.{}", arm.tag), false, Some("InvalidMultiplicityNotPresent"), false);
            }
        }
    }
    // --- version-gated enum values: (enum, item) under each version, placed through the first element that uses the enum
    for (ename, def) in g.types.iter() {
        let TyDef::Enum(eitems) = def else { continue };
        if !eitems.iter().any(|(_, lo, hi)| *lo != 0 || *hi != 0) {
            continue;
        }
        // find a user type with a direct enum parameter
        let mut users: Vec<&String> = pths.keys().filter(|ty| matches!(g.types.get(*ty), Some(TyDef::Block { items, .. }) if items.iter().any(|i| matches!(i, Item::Enum(e) if e == ename)))).collect();
        users.sort();
        let Some(user) = users.first() else { continue };
        let path = pths[*user].clone();
        if path.iter().any(|a| a.vhi != 0) {
            continue;
        }
        let max_vlo = path.iter().map(|a| a.vlo).max().unwrap_or(0);
        for (tag, lo, hi) in eitems.iter().filter(|(_, lo, hi)| *lo != 0 || *hi != 0) {
            for (v, vt) in VERSIONS {
                if v < max_vlo {
                    continue;
                }
                let mut b = Builder { g: &g, version: v, n: 0 };
                let (mut toks, leaf_start) = doc_for_path(&mut b, &path, &[], vt);
                let Some(TyDef::Block { items, .. }) = g.types.get(*user) else { continue };
                let tag_idx = if toks[leaf_start].role == Role::Begin { leaf_start + 1 } else { leaf_start };
                // position of the enum parameter among the leaf's parameter tokens
                let mut b2 = Builder { g: &g, version: v, n: 0 };
                let mut pos = None;
                let mut tmp = vec![];
                for it in items {
                    if matches!(it, Item::Enum(e) if e == ename) && pos.is_none() {
                        pos = Some(tmp.len());
                    }
                    b2.item(it, 0, &mut tmp);
                }
                let Some(pos) = pos else { continue };
                toks[tag_idx + 1 + pos].text = tag.clone();
                if *lo != 0 && v < *lo {
                    check(&mut rep, &toks, format!("enum-too-new:{ename}.{tag}@{vt}"), false, Some("EnumRefTooNew"), false);
                } else if *hi != 0 && v > *hi {
                    check(&mut rep, &toks, format!("enum-deprecated:{ename}.{tag}@{vt}"), false, Some("EnumRefDeprecated"), true);
                } else {
                    check(&mut rep, &toks, format!("enum-in-range:{ename}.{tag}@{vt}"), true, None, false);
                }
            }
        }
    }
    // --- random whole documents on top
    let nrand = if args.thorough { 20000 } else { 900 };
    for i in 0..nrand {
        let v = [6u8, 5, 4, 3][i % 4];
        // position-restricted items in ascending order (the RESERVED reordering is C01's known finding, not a C04 matter)
        let toks = gen_document_canonical(&g, &mut rng, GenOpts { version: v, opt_prob: 40, ..GenOpts::default() });
        check(&mut rep, &toks, "random:document".to_string(), true, None, false);
    }
    rep.exhaustive = false;
    rep
}
