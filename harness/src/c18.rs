//! C18: IF_DATA is interpreted exactly as the applicable A2ML definition says.
use crate::a2mlgen::*;
use crate::common::*;
use crate::tree::*;

fn doc(a2ml_in_file: Option<&str>, ifdata: &[Vec<String>]) -> String {
    let mut s = String::from("ASAP2_VERSION 1 71\n/begin PROJECT p \"\"\n/begin MODULE m \"\"\n");
    if let Some(a) = a2ml_in_file {
        s.push_str(&format!("/begin A2ML\n{a}/end A2ML\n"));
    }
    for (i, inst) in ifdata.iter().enumerate() {
        if i % 2 == 0 {
            s.push_str(&format!("/begin IF_DATA {}\n/end IF_DATA\n", inst.join(" ")));
        } else {
            s.push_str(&format!("/begin MEASUREMENT x{i} \"\" UBYTE NO_COMPU_METHOD 0 0 0 1\n  /begin IF_DATA\n    {}\n  /end IF_DATA\n/end MEASUREMENT\n", inst.join("\n    ")));
        }
    }
    s.push_str("/end MODULE\n/end PROJECT\n");
    s
}

/// token sequences equal; where the definition has 32-bit `float` members a number may differ beyond f32 precision
/// (the value is stored as f32 and written with all digits of that f32)
fn same_tokens(a: &[crate::c02::Sig], b: &[crate::c02::Sig], has_float: bool) -> bool {
    same_tokens_l(a, b, has_float, false)
}

/// `lenient`: the non-strict reader accepted an identifier where the definition has a string (with a diagnostic);
/// the value is then written as a string
fn same_tokens_l(a: &[crate::c02::Sig], b: &[crate::c02::Sig], has_float: bool, lenient: bool) -> bool {
    use crate::c02::Sig;
    a.len() == b.len()
        && a.iter().zip(b.iter()).all(|(x, y)| {
            x == y
                || (lenient && matches!((x, y), (Sig::Ident(p), Sig::Str(q)) if p == q))
                || (has_float
                    && match (x, y) {
                        (Sig::Num(p), Sig::Num(q)) => (f64::from_bits(*p) as f32) == (f64::from_bits(*q) as f32),
                        _ => false,
                    })
        })
}

/// validity flags in the order of the generated instances (even: MODULE level, odd: inside MEASUREMENT x<i>)
fn all_ifdata(f: &a2lfile::A2lFile) -> Vec<bool> {
    let mut v: Vec<(usize, bool)> = vec![];
    for m in &f.project.module {
        for (k, i) in m.if_data.iter().enumerate() {
            v.push((2 * k, i.ifdata_valid));
        }
        for me in &m.measurement {
            let idx: usize = a2lfile::A2lObjectName::get_name(me).trim_start_matches('x').parse().unwrap_or(usize::MAX);
            for i in &me.if_data {
                v.push((idx, i.ifdata_valid));
            }
        }
    }
    v.sort();
    v.into_iter().map(|(_, b)| b).collect()
}

/// the IF_DATA lists of a module in the order of the Lean structure `Hosts`: flags of the blocks, or (counts) lengths
fn host_text(m: &a2lfile::Module, counts: bool) -> String {
    let one = |l: &Vec<a2lfile::IfData>| {
        if counts {
            l.len().to_string()
        } else if l.is_empty() {
            "e".to_string()
        } else {
            l.iter().map(|i| if i.ifdata_valid { '1' } else { '0' }).collect()
        }
    };
    let mut groups: Vec<Vec<String>> = vec![vec![one(&m.if_data)]];
    groups.push(m.mod_par.as_ref().map_or(vec![], |p| p.memory_layout.iter().map(|x| one(&x.if_data)).collect()));
    groups.push(m.mod_par.as_ref().map_or(vec![], |p| p.memory_segment.iter().map(|x| one(&x.if_data)).collect()));
    groups.push(m.axis_pts.iter().map(|x| one(&x.if_data)).collect());
    groups.push(m.blob.iter().map(|x| one(&x.if_data)).collect());
    groups.push(m.characteristic.iter().map(|x| one(&x.if_data)).collect());
    groups.push(m.frame.iter().map(|x| one(&x.if_data)).collect());
    groups.push(m.function.iter().map(|x| one(&x.if_data)).collect());
    groups.push(m.group.iter().map(|x| one(&x.if_data)).collect());
    groups.push(m.instance.iter().map(|x| one(&x.if_data)).collect());
    groups.push(m.measurement.iter().map(|x| one(&x.if_data)).collect());
    groups.iter().map(|g| if g.is_empty() { "-".to_string() } else { g.join(";") }).collect::<Vec<_>>().join("|")
}

fn load_spec(text: &str, spec: Option<String>, strict: bool) -> Loaded {
    match catch(|| a2lfile::load_from_string(text, spec, strict)) {
        Err(p) => Loaded::Panic(p),
        Ok(Ok((f, log))) => Loaded::Ok(f, log),
        Ok(Err(e)) => Loaded::Err(e.to_string()),
    }
}

pub fn run(args: &Args) -> Report {
    let mut rep = Report::new(
        "C18",
        "A2ML definitions from a grammar-based generator (named and anonymous types, references to earlier types, all 10 scalar types, char[n] strings, arrays, enums with and without values, structs, sequences, taggedstruct / taggedunion with repeated members and blocks, depth <= 4), each with conforming IF_DATA instances at MODULE level and inside MEASUREMENT, with single-token deviations and with balanced garbage; definition supplied in-file, built-in, or both. non-trivial = every case; distinct = distinct (definition, instance, supply)",
    );
    let mut rng = Rng::new(args.seed);
    let ndefs = if args.thorough { 40000 } else { 400 };
    if let Some(input) = &args.replay {
        let mut it = input.split_whitespace();
        let text = String::from_utf8_lossy(&unhex(it.next().unwrap_or("-"))).into_owned();
        let spec = it.next().filter(|s| *s != "-").map(|s| String::from_utf8_lossy(&unhex(s)).into_owned());
        rep.case(&text, true);
        rep.case(&"replay", true);
        if let Loaded::Panic(p) = load_spec(&text, spec, false) {
            rep.fail("panic", input.clone(), p);
        }
        return rep;
    }
    for d in 0..ndefs {
        let case = gen_a2ml(&mut rng, 1 + d % 4);
        // the definition itself: hook dump for the Lean A2ML model
        match catch(|| a2lfile::verif_hooks::a2ml_dump(&case.a2ml)) {
            Err(p) => {
                rep.fail("panic", format!("{} -", hex(case.a2ml.as_bytes())), format!("A2ML parser panicked: {p}"));
                continue;
            }
            Ok(Err(e)) => {
                rep.fail("generator", format!("{} -", hex(case.a2ml.as_bytes())), format!("generated A2ML rejected: {e}"));
                continue;
            }
            Ok(Ok(dump)) => rep.tie(format!("aml {}", hex(case.a2ml.as_bytes())), format!("ok {dump}")),
        }
        // malformed definitions (one word removed, doubled or replaced): accepted or rejected, never a panic; the Lean
        // A2ML model has to agree on which
        {
            let mut words: Vec<String> = case.a2ml.split(' ').map(|w| w.to_string()).collect();
            let i = rng.below(words.len());
            match rng.below(4) {
                0 => {
                    words.remove(i);
                }
                1 => {
                    let w = words[i].clone();
                    words.insert(i, w);
                }
                2 => words[i] = ["{", "}", ";", "(", ")*", "\"x\"", "struct", "block", "[3]", "=", "1", "/*", "//", "\""][rng.below(14)].to_string(),
                _ => {
                    let mut b = words[i].clone().into_bytes();
                    if !b.is_empty() {
                        let k = rng.below(b.len());
                        let alphabet = b"{};()*[]=,\"/ax1_ \n"; b[k] = alphabet[rng.below(alphabet.len())];
                    }
                    words[i] = String::from_utf8_lossy(&b).into_owned();
                }
            }
            let bad = words.join(" ");
            rep.case(&bad, true);
            rep.bump("malformed-definition");
            match catch(|| a2lfile::verif_hooks::a2ml_dump(&bad)) {
                Err(p) => rep.fail("panic", format!("{} -", hex(bad.as_bytes())), format!("A2ML parser panicked: {p}")),
                Ok(Err(_)) => {
                    rep.bump("malformed-definition:rejected");
                    rep.tie(format!("aml {}", hex(bad.as_bytes())), "err".to_string());
                }
                Ok(Ok(dump)) => rep.tie(format!("aml {}", hex(bad.as_bytes())), format!("ok {dump}")),
            }
        }
        let insts: Vec<Vec<String>> = (0..4).map(|_| gen_instance(&mut rng, &case.root)).collect();
        // a definition in which a greedy sequence is followed by a member of the same token class is ambiguous (the
        // instance generator does not know about greediness): such definitions are counted and skipped
        if insts.iter().any(|inst| !inst.is_empty() && conforms(&case.root, inst, false) != Some(true)) {
            rep.bump("generator:ambiguous-definition-skipped");
            continue;
        }
        for supply in 0..3 {
            let (in_file, builtin) = match supply {
                0 => (Some(case.a2ml.as_str()), None),
                1 => (None, Some(case.a2ml.clone())),
                _ => (Some(case.a2ml.as_str()), Some(case.a2ml.clone())),
            };
            let text = doc(in_file, &insts);
            let input = format!("{} {}", hex(text.as_bytes()), builtin.as_ref().map_or("-".to_string(), |b| hex(b.as_bytes())));
            rep.case(&input, true);
            rep.bump(["supply:in-file", "supply:built-in", "supply:both"][supply]);
            match load_spec(&text, builtin.clone(), supply == 0) {
                Loaded::Panic(p) => rep.fail("panic", input.clone(), p),
                Loaded::Err(e) => rep.fail("conforming-rejected", input.clone(), format!("conforming IF_DATA rejected: {e}")),
                Loaded::Ok(f, log) => {
                    if !log.is_empty() {
                        rep.fail("conforming-diagnostic", input.clone(), format!("conforming IF_DATA produces diagnostics [{}]", log_text(&log)));
                    }
                    let valid = all_ifdata(&f);
                    if valid.len() != insts.len() || valid.iter().any(|v| !v) {
                        rep.fail("conforming-invalid", input.clone(), format!("conforming IF_DATA blocks flagged {valid:?}"));
                    }
                    let w = f.write_to_string();
                    if let (Some((a, _)), Some((b, _))) = (crate::c02::sig_tokens(&text), crate::c02::sig_tokens(&w)) {
                        if !same_tokens(&a, &b, case.a2ml.contains("float")) {
                            let k = (0..a.len().min(b.len())).find(|&k| a[k] != b[k]).unwrap_or(0);
                            rep.fail("values-changed", input.clone(), format!("token #{k}: {:?} -> {:?}", a.get(k), b.get(k)));
                        }
                    }
                    // reload with the same supply: equal model, textual fixpoint
                    match load_spec(&w, builtin.clone(), false) {
                        Loaded::Ok(f2, _) => {
                            if f2 != f {
                                rep.fail("reload", input.clone(), "reloaded model differs".into());
                            }
                            if f2.write_to_string() != w {
                                rep.fail("fixpoint", input.clone(), "written text is not a fixpoint".into());
                            }
                        }
                        _ => rep.fail("reload", input.clone(), "written text does not load".into()),
                    }
                    if supply == 0 && d % 3 == 0 {
                        if let Some((req, ans)) = tie_case_special(&text, false) {
                            rep.tie(req, ans);
                        }
                    }
                    // built-in definition (alone, or in front of the file's): the model gets it as an argument
                    if supply != 0 && d % 3 == 1 {
                        if let (Some(b), Some((req, ans))) = (&builtin, builtin.as_ref().and_then(|b| tie_case_special_builtin(&text, b, false))) {
                            let _ = b;
                            rep.tie(req, ans);
                        }
                    }
                }
            }
        }
        // built-in definition and a DIFFERENT in-file definition that accepts the same content (every integer member
        // turned into a float member): the built-in definition is tried first, so the content must be read - and written
        // back, notation included - exactly as with the built-in definition alone
        {
            let mut variant = String::new();
            for (k, w) in case.a2ml.split(' ').enumerate() {
                if k > 0 {
                    variant.push(' ');
                }
                let core = w.trim_end_matches(';');
                if ["uchar", "uint", "ulong", "int", "long", "uint64", "int64"].contains(&core) {
                    variant.push_str("float");
                    variant.push_str(&w[core.len()..]);
                } else {
                    variant.push_str(w);
                }
            }
            if variant != case.a2ml {
                let ifdata_part = |w: &str| -> String {
                    match (w.find("/begin IF_DATA"), w.rfind("/end IF_DATA")) {
                        (Some(a), Some(b)) if a < b => w[a..b].to_string(),
                        _ => String::new(),
                    }
                };
                let t_builtin = doc(None, &insts);
                let t_both = doc(Some(&variant), &insts);
                let input = format!("{} {}", hex(t_both.as_bytes()), hex(case.a2ml.as_bytes()));
                rep.case(&input, true);
                rep.bump("supply:both-different");
                if d % 2 == 0 {
                    if let Some((req, ans)) = tie_case_special_builtin(&t_both, &case.a2ml, false) {
                        rep.tie(req, ans);
                    }
                }
                match (load_spec(&t_builtin, Some(case.a2ml.clone()), false), load_spec(&t_both, Some(case.a2ml.clone()), false)) {
                    (Loaded::Ok(f1, _), Loaded::Ok(f2, _)) => {
                        let (w1, w2) = (ifdata_part(&f1.write_to_string()), ifdata_part(&f2.write_to_string()));
                        if w1 != w2 {
                            let (a, b) = crate::c01::first_diff(&w1, &w2);
                            rep.fail("values-changed", input.clone(), format!("with a built-in definition and a different in-file definition the content is not read by the built-in one: IF_DATA text differs at line {a}: {b}"));
                        }
                    }
                    (Loaded::Panic(p), _) | (_, Loaded::Panic(p)) => rep.fail("panic", input.clone(), p),
                    (Loaded::Ok(..), Loaded::Err(e)) => {
                        // the variant definition may be rejected as a definition (then the file does not load): not a case
                        rep.bump("supply:both-different:in-file-variant-rejected");
                        let _ = e;
                    }
                    _ => {}
                }
            }
        }
        // deviations: single-token changes inside one instance, balanced garbage, and (k = 4) a member that is defined
        // without `block` written as /begin TAG ... /end TAG (balanced, three tokens more, does not conform)
        for k in 0..5 {
            let mut insts2 = insts.clone();
            let which = k % insts2.len();
            let fam;
            if k == 4 {
                // find a non-block tagged member without data or with scalar data among the instance's tokens: a tag
                // token that is not preceded by /begin or /end and is a tag of the definition
                fn nonblock_tags(t: &T, out: &mut Vec<(String, usize)>) {
                    match t {
                        T::Arr(of, _) => nonblock_tags(of, out),
                        T::Struct(items) => items.iter().for_each(|i| nonblock_tags(i, out)),
                        T::TaggedStruct(items) | T::TaggedUnion(items) => {
                            for it in items {
                                if !it.is_block && !it.seq {
                                    let n = match &it.item { None => Some(0), Some(T::Scalar(_)) | Some(T::CharArr(_)) | Some(T::Enum(_)) => Some(1), _ => None };
                                    if let Some(n) = n {
                                        out.push((it.tag.clone(), n));
                                    }
                                }
                                if let Some(x) = &it.item {
                                    nonblock_tags(x, out);
                                }
                            }
                        }
                        _ => {}
                    }
                }
                let mut tags = vec![];
                nonblock_tags(&case.root, &mut tags);
                let toks = insts2[which].clone();
                let hit = (0..toks.len()).find_map(|i| {
                    let (tag, n) = tags.iter().find(|(t, _)| *t == toks[i])?;
                    if i > 0 && (toks[i - 1] == "/begin" || toks[i - 1] == "/end") {
                        return None;
                    }
                    if i + n >= toks.len() + 0 && *n > 0 {
                        return None;
                    }
                    Some((i, tag.clone(), *n))
                });
                let Some((i, tag, n)) = hit else { continue };
                let mut v = toks[..i].to_vec();
                v.push("/begin".into());
                v.extend(toks[i..=i + n].iter().cloned());
                v.push("/end".into());
                v.push(tag);
                v.extend(toks[i + n + 1..].iter().cloned());
                insts2[which] = v;
                fam = "wrapped-in-block";
            } else if k == 3 || insts2[which].is_empty() {
                insts2[which] = vec!["GARBAGE".into(), "1".into(), "/begin".into(), "X".into(), "\"s\"".into(), "/end".into(), "X".into(), "2.5".into()];
                fam = "balanced-garbage";
            } else {
                // structurally balanced deviations only: /begin, /end and the tag after them are left alone
                let cand: Vec<usize> = (0..insts2[which].len())
                    .filter(|&i| {
                        let t = &insts2[which];
                        t[i] != "/begin" && t[i] != "/end" && (i == 0 || (t[i - 1] != "/begin" && t[i - 1] != "/end"))
                    })
                    .collect();
                if cand.is_empty() {
                    continue;
                }
                let i = cand[rng.below(cand.len())];
                match rng.below(3) {
                    0 => insts2[which][i] = ["notatag", "\"str\"", "99999999999", "1.5"][rng.below(4)].to_string(),
                    1 => {
                        let t = insts2[which][i].clone();
                        insts2[which].insert(i, t);
                    }
                    _ => {
                        insts2[which].remove(i);
                    }
                }
                fam = "single-token-deviation";
            }
            let text = doc(Some(&case.a2ml), &insts2);
            let input = format!("{} -", hex(text.as_bytes()));
            rep.case(&input, true);
            rep.bump(fam);
            match load_spec(&text, None, false) {
                Loaded::Panic(p) => rep.fail("panic", input.clone(), p),
                Loaded::Err(_) => rep.bump("deviation:rejected"),
                Loaded::Ok(mut f, log) => {
                    let valid = all_ifdata(&f);
                    let lenient = !log.is_empty() && valid.get(which) == Some(&true);
                    // the reference reading of the definition decides what the flag has to be
                    let strict_conf = conforms(&case.root, &insts2[which], false);
                    let lenient_conf = conforms(&case.root, &insts2[which], true);
                    match (strict_conf, lenient_conf) {
                        (Some(true), _) => {
                            rep.bump("reference:conforms");
                            if valid.get(which) != Some(&true) {
                                rep.fail("conforming-invalid", input.clone(), format!("content [{}] conforms to the definition but is flagged invalid", insts2[which].join(" ")));
                            }
                        }
                        (_, Some(false)) => {
                            rep.bump("reference:deviates");
                            if valid.get(which) != Some(&false) {
                                rep.fail("deviating-valid", input.clone(), format!("content [{}] does not conform to the definition but is flagged valid", insts2[which].join(" ")));
                            }
                        }
                        (Some(false), Some(true)) => rep.bump("reference:tolerated-only"),
                        _ => rep.bump("reference:undecided"),
                    }
                    for (j, inst) in insts2.iter().enumerate() {
                        if j != which && valid.get(j) != Some(&true) {
                            rep.fail("conforming-invalid", input.clone(), format!("untouched conforming block #{j} [{}] flagged invalid", inst.join(" ")));
                        }
                    }
                    if lenient {
                        rep.bump("deviation:accepted-with-diagnostic");
                    }
                    if fam == "balanced-garbage" && valid.get(which) != Some(&false) {
                        rep.fail("garbage-valid", input.clone(), "balanced non-conforming content is not flagged invalid".into());
                    }
                    let w = f.write_to_string();
                    if let (Some((a, _)), Some((b, _))) = (crate::c02::sig_tokens(&text), crate::c02::sig_tokens(&w)) {
                        if !same_tokens_l(&a, &b, case.a2ml.contains("float"), lenient) {
                            let k = (0..a.len().min(b.len())).find(|&k| a[k] != b[k]).unwrap_or(0);
                            rep.fail("values-changed", input.clone(), format!("uninterpreted / deviating content, token #{k}: {:?} -> {:?}", a.get(k), b.get(k)));
                        }
                    }
                    // ifdata_cleanup removes exactly the invalid blocks
                    let nvalid = valid.iter().filter(|v| **v).count();
                    if catch(|| f.ifdata_cleanup()).is_err() {
                        rep.fail("panic", input.clone(), "ifdata_cleanup panicked".into());
                    } else {
                        let after = all_ifdata(&f);
                        if after.len() != nvalid || after.iter().any(|v| !v) {
                            rep.fail("cleanup", input.clone(), format!("ifdata_cleanup(): before {valid:?}, after {after:?}"));
                        }
                    }
                    rep.bump(if valid.iter().all(|v| *v) { "deviation:still-valid" } else { "deviation:kept-invalid" });
                    if d % 5 == 0 {
                        if let Some((req, ans)) = tie_case_special(&text, false) {
                            rep.tie(req, ans);
                        }
                    }
                }
            }
        }
        if d % 61 == 0 {
            rep.sample(format!("{} || {}", case.a2ml.replace('\n', " "), insts[0].join(" ")));
        }
    }
    // definitions around the nesting limit of the A2ML parser (100 levels; structs, chains of named types, array
    // dimensions, ( )*, tagged members): accepted or rejected as the Lean A2ML model says, and IF_DATA content that a
    // definition of the deepest accepted shape describes is still interpreted
    for depth in [1usize, 3, 30, 48, 49, 50, 51, 96, 97, 98, 99, 100, 101, 102, 150] {
        for kind in ["nest-a2ml", "chain-a2ml", "dims-a2ml", "seq-a2ml", "tagged-a2ml"] {
            let doc = crate::c03::nest_text(kind, depth);
            let Some(a) = doc.find("/begin A2ML ").map(|p| p + 12) else { continue };
            let Some(b) = doc.find(" /end A2ML") else { continue };
            let def = doc[a..b].to_string();
            rep.case(&def, true);
            rep.bump("nesting-definition");
            match catch(|| a2lfile::verif_hooks::a2ml_dump(&def)) {
                Err(p) => rep.fail("panic", format!("{} -", hex(def.as_bytes())), format!("A2ML parser panicked: {p}")),
                Ok(Err(_)) => {
                    rep.bump("nesting-definition:rejected");
                    rep.tie(format!("aml {}", hex(def.as_bytes())), "err".to_string());
                }
                Ok(Ok(dump)) => {
                    rep.bump("nesting-definition:accepted");
                    rep.tie(format!("aml {}", hex(def.as_bytes())), format!("ok {dump}"));
                    // the reference: whatever is accepted is a definition that the content `5` / `T 5` conforms to
                    if matches!(kind, "nest-a2ml" | "chain-a2ml" | "dims-a2ml") {
                        match catch(|| a2lfile::load_from_string(&doc, None, true)) {
                            Ok(Ok((f, _))) => {
                                if !all_ifdata(&f).iter().all(|v| *v) {
                                    rep.fail("valid-flag", format!("{} -", hex(doc.as_bytes())), format!("content 5 is not interpreted with an accepted definition of depth {depth} ({kind})"));
                                }
                            }
                            Ok(Err(e)) => rep.fail("load", format!("{} -", hex(doc.as_bytes())), format!("{e}")),
                            Err(p) => rep.fail("panic", format!("{} -", hex(doc.as_bytes())), p),
                        }
                    }
                }
            }
        }
    }
    // ifdata_cleanup() at every place an IF_DATA block can stand: each host holds [invalid, valid, invalid]; afterwards
    // the written file holds exactly one - valid - block per host, and stays so over write + load
    {
        let blocks = "/begin IF_DATA XCP \"no\" /end IF_DATA /begin IF_DATA XCP 5 /end IF_DATA /begin IF_DATA XCP /begin q /end q /end IF_DATA";
        let hosts: Vec<(&str, String)> = vec![
            ("MODULE", blocks.to_string()),
            ("MEMORY_LAYOUT", format!("/begin MOD_PAR \"\" /begin MEMORY_LAYOUT PRG_CODE 0 0 -1 -1 -1 -1 -1 {blocks} /end MEMORY_LAYOUT /begin MEMORY_LAYOUT PRG_DATA 16 1 -1 -1 -1 -1 -1 {blocks} /end MEMORY_LAYOUT /begin MEMORY_SEGMENT seg \"\" CODE FLASH INTERN 0 0 -1 -1 -1 -1 -1 {blocks} /end MEMORY_SEGMENT /end MOD_PAR")),
            ("AXIS_PTS", format!("/begin AXIS_PTS ap \"\" 0 NO_INPUT_QUANTITY rl 0 NO_COMPU_METHOD 1 0 1 {blocks} /end AXIS_PTS")),
            ("BLOB", format!("/begin BLOB bl \"\" 0 1 {blocks} /end BLOB")),
            ("CHARACTERISTIC", format!("/begin CHARACTERISTIC ch \"\" VALUE 0 rl 0 NO_COMPU_METHOD 0 1 {blocks} /end CHARACTERISTIC")),
            ("FRAME", format!("/begin FRAME fr \"\" 1 1 {blocks} /end FRAME")),
            ("FUNCTION", format!("/begin FUNCTION fu \"\" {blocks} /end FUNCTION")),
            ("GROUP", format!("/begin GROUP gr \"\" {blocks} /end GROUP")),
            ("INSTANCE", format!("/begin INSTANCE ins \"\" td 0 {blocks} /end INSTANCE")),
            ("MEASUREMENT", format!("/begin MEASUREMENT me \"\" UBYTE NO_COMPU_METHOD 0 0 0 255 {blocks} /end MEASUREMENT")),
        ];
        let body: String = hosts.iter().map(|h| h.1.clone()).collect::<Vec<_>>().join("\n");
        let nhost = 12; // MODULE, 2 MEMORY_LAYOUT, MEMORY_SEGMENT, 8 named elements
        let doc = format!("ASAP2_VERSION 1 71\n/begin PROJECT p \"\"\n/begin MODULE m \"\"\n/begin A2ML\nblock \"IF_DATA\" taggedunion {{ \"XCP\" uint; }};\n/end A2ML\n{body}\n/end MODULE\n/end PROJECT\n");
        let input = format!("{} -", hex(doc.as_bytes()));
        rep.case(&doc, true);
        rep.bump("cleanup-all-hosts");
        let count = |t: &str| t.matches("/begin IF_DATA").count();
        match catch(|| a2lfile::load_from_string(&doc, None, false)) {
            Ok(Ok((mut f, log))) => {
                let before = count(&f.write_to_string());
                let request = host_text(&f.project.module[0], false);
                if before != 3 * nhost {
                    rep.sample(format!("cleanup-all-hosts log: {}", log.iter().map(|e| e.to_string()).collect::<Vec<_>>().join(" | ")));
                }
                f.ifdata_cleanup();
                // tie: the Lean model of the traversal (Hosts.cleanup) on the same flags
                rep.tie(format!("ifcl {request}"), host_text(&f.project.module[0], true));
                let w = f.write_to_string();
                let after = count(&w);
                let per_host_ok = w.matches("XCP 5").count() == nhost && !w.contains("\"no\"") && !w.contains("/begin q");
                if before != 3 * nhost {
                    rep.fail("generator", input, format!("cleanup-all-hosts: {before} IF_DATA blocks loaded, {} expected", 3 * nhost));
                } else if after != nhost || !per_host_ok {
                    rep.fail("cleanup", input, format!("ifdata_cleanup() left {after} IF_DATA blocks in the written file, {nhost} valid ones expected (one in each of MODULE, 2 x MEMORY_LAYOUT, MEMORY_SEGMENT, AXIS_PTS, BLOB, CHARACTERISTIC, FRAME, FUNCTION, GROUP, INSTANCE, MEASUREMENT); invalid content still present: {}", w.contains("\"no\"") || w.contains("/begin q")));
                } else {
                    match catch(|| a2lfile::load_from_string(&w, None, false)) {
                        Ok(Ok((mut f2, _))) => {
                            f2.ifdata_cleanup();
                            if f2.write_to_string() != w {
                                rep.fail("cleanup", input, "ifdata_cleanup() is not stable over write + load".into());
                            }
                        }
                        _ => rep.fail("load", input, "cleanup-all-hosts: written file rejected".into()),
                    }
                }
            }
            Ok(Err(e)) => rep.fail("generator", input, format!("cleanup-all-hosts: {e}")),
            Err(p) => rep.fail("panic", input, p),
        }
    }
    // witness scenario (known finding C18-comment-only-ifdata): an IF_DATA holding nothing but a comment is read as content
    // (valid under a definition that allows an empty tagged union), written without the comment, and read back as an
    // empty - invalid - block; the same block with one item is the control
    for (body, label) in [("/* c */", "comment-only"), ("N /* c */", "control")] {
        let doc = format!("ASAP2_VERSION 1 71\n/begin PROJECT p \"\"\n/begin MODULE m \"\"\n/begin A2ML\nblock \"IF_DATA\" taggedunion {{ \"N\"; \"X\" uint; }};\n/end A2ML\n/begin IF_DATA {body} /end IF_DATA\n/end MODULE\n/end PROJECT\n");
        let input = format!("{} -", hex(doc.as_bytes()));
        rep.case(&doc, true);
        rep.bump("witness:comment-only-ifdata");
        match catch(|| a2lfile::load_from_string(&doc, None, false)) {
            Ok(Ok((f, _))) => {
                let v1 = all_ifdata(&f);
                let w = f.write_to_string();
                match catch(|| a2lfile::load_from_string(&w, None, false)) {
                    Ok(Ok((f2, _))) => {
                        let v2 = all_ifdata(&f2);
                        if v1 != v2 || f2 != f {
                            rep.fail(if label == "comment-only" { "comment-only-ifdata" } else { "valid-flag" }, input, format!("{label}: validity {v1:?} after load, {v2:?} after load + write + load (models equal: {})", f2 == f));
                        }
                    }
                    Ok(Err(e)) => rep.fail("load", input, format!("{label}: written file rejected: {e}")),
                    Err(p) => rep.fail("panic", input, p),
                }
            }
            Ok(Err(e)) => rep.fail("load", input, format!("{label}: {e}")),
            Err(p) => rep.fail("panic", input, p),
        }
    }
    rep
}
